import sys, time, logging, os, hashlib
os.environ["OPENBLAS_NUM_THREADS"]="1"
sys.path.insert(0, '/repo')
import warnings; warnings.filterwarnings("ignore")
import numpy as np
import WallGo
from Models.Yukawa.yukawa import YukawaModel
def mk(M=16):
    m = WallGo.WallGoManager(); m.setVerbosity(logging.ERROR)
    m.config.configGrid.spatialGridSize = M; m.config.configEOM.maxIterations = 25
    m.config.configThermodynamics.phaseTracerTol = 1e-8
    model = YukawaModel(); m.registerModel(model)
    model.modelParameters.update({"sigma": 0.0,"msq": 1.0,"gamma": -1.2,"lam": 0.10,"y": 0.55,"mf": 0.30})
    return m
def setup(m, Tn):
    m.setupThermodynamicsHydrodynamics(
        WallGo.PhaseInfo(temperature=Tn, phaseLocation1=WallGo.Fields([0.4]), phaseLocation2=WallGo.Fields([27.0])),
        WallGo.VeffDerivativeSettings(temperatureVariationScale=1.0, fieldValueVariationScale=[100.0]))
def dig(r):
    h=hashlib.sha256()
    for k in ("wallVelocity","wallVelocityError","wallVelocityLTE","temperaturePlus","temperatureMinus","velocityJouguet"):
        h.update(np.float64(getattr(r,k) if getattr(r,k) is not None else np.nan).tobytes())
    for k in ("wallWidths","wallOffsets","velocityProfile","temperatureProfile","fieldProfiles"):
        h.update(np.ascontiguousarray(getattr(r,k),dtype=float).tobytes())
    h.update(repr((r.success, r.solutionType.name, r.message)).encode()); return h.hexdigest()[:16]
s = WallGo.WallSolverSettings(bIncludeOffEquilibrium=False, meanFreePathScale=5000.0, wallThicknessGuess=10.0)
ref=mk(); setup(ref,8.0); t0=time.time(); r0=ref.solveWall(s); print("ref", dig(r0), repr(r0.wallVelocity), "t", time.time()-t0)
m=mk(); setup(m,7.5); m.wallSpeedLTE(); m.solveWall(s)
h=m.hydrodynamics
setup(m,8.0)
h=m.hydrodynamics
for vw in (0.2,0.5,0.62,0.7,0.9): h.findMatching(vw)
h.fastestDeflag(); h.slowestDeton(); h.efficiencyFactor(0.4); m.wallSpeedLTE(); m.solveWallDetonation(s)
r1=m.solveWall(s); print("hist", dig(r1), repr(r1.wallVelocity), "equal", dig(r1)==dig(r0))
