import sys, time, logging, os
os.environ["OPENBLAS_NUM_THREADS"]="1"
sys.path.insert(0, '/repo')
import warnings; warnings.filterwarnings("ignore")
import numpy as np
import WallGo
from Models.Yukawa.yukawa import YukawaModel
Tn=float(sys.argv[1]); maxit=int(sys.argv[2]); M=int(sys.argv[3])
m = WallGo.WallGoManager(); m.setVerbosity(logging.ERROR)
m.config.configGrid.spatialGridSize = M; m.config.configEOM.maxIterations = maxit
m.config.configThermodynamics.phaseTracerTol = 1e-8
model = YukawaModel(); m.registerModel(model)
model.modelParameters.update({"sigma": 0.0,"msq": 1.0,"gamma": -1.2,"lam": 0.10,"y": 0.55,"mf": 0.30})
try:
    t0=time.time()
    m.setupThermodynamicsHydrodynamics(
        WallGo.PhaseInfo(temperature=Tn, phaseLocation1=WallGo.Fields([0.4]), phaseLocation2=WallGo.Fields([27.0])),
        WallGo.VeffDerivativeSettings(temperatureVariationScale=1.0, fieldValueVariationScale=[100.0]))
    s = WallGo.WallSolverSettings(bIncludeOffEquilibrium=False, meanFreePathScale=5000.0, wallThicknessGuess=10.0)
    r=m.solveWall(s); t1=time.time()
    print(f"Tn={Tn} maxit={maxit} M={M} vJ={m.hydrodynamics.vJ:.4f} vMin={m.hydrodynamics.vMin:.4f} alN={m.hydrodynamics.template.alN:.3f} LTE={m.wallSpeedLTE():.4f} vw={r.wallVelocity} succ={r.success} type={r.solutionType.name} t={t1-t0:.1f} msg={r.message[:60]}")
except Exception as e:
    print(f"Tn={Tn} EXC {type(e).__name__}: {str(e)[:100]}")
