import os; os.environ["OPENBLAS_NUM_THREADS"]="1"
import warnings; warnings.filterwarnings("ignore")
import numpy as np, logging, time
logging.disable(logging.CRITICAL)
import WallGo
from WallGo import Fields, EffectivePotential, FreeEnergy, EExtrapolationType as E
from WallGo.PotentialTools import JbIntegral, JfIntegral
class V1(EffectivePotential):
    fieldCount=1; effectivePotentialError=1e-15
    def evaluate(s,fields,T):
        phi=Fields(fields).getField(0); T=np.asarray(T)
        return np.array(-3.0*T**4 + 0.5*(1.0+0.02*T**2)*phi**2 - 1.1*phi**3 + 0.5*phi**4)
v=V1(); v.configureDerivatives(WallGo.VeffDerivativeSettings(temperatureVariationScale=1.0, fieldValueVariationScale=[1.0]))
fe=FreeEnergy(v, 1.0, Fields([1.2]))
t0=time.time(); fe.tracePhase(0.5,2.0,0.05,rTol=1e-6); print("trace", time.time()-t0, "range", fe.interpolationRangeMin(), fe.interpolationRangeMax(), fe.minPossibleTemperature, fe.maxPossibleTemperature, "n", fe.numPoints())
r=fe(1.3); print("scalar call:", type(r).__name__, np.shape(r.veffValue), r.fieldsAtMinimum.shape)
r=fe(np.array([0.9,1.3])); print("array call:", np.shape(r.veffValue), r.fieldsAtMinimum.shape)
try: fe(5.0)
except Exception as e: print("outside ->", type(e).__name__)
d=fe.derivative(1.3); print("deriv:", np.shape(d.veffValue))
print("direct:", np.shape(fe(1.3, False).veffValue), "modes", fe.extrapolationTypeLower, fe.extrapolationTypeUpper, "adaptive", fe._bUseAdaptiveInterpolation)
# exact minimum for comparison: phi solves (1+0.02T^2) - 3.3 phi + 2 phi^2 = 0
T=1.3; a=1+0.02*T*T; phi=(3.3+np.sqrt(3.3**2-8*a))/4; print("phi err", abs(fe(T).fieldsAtMinimum[0,0]-phi))
for cls in (JbIntegral,JfIntegral):
    J=cls(bUseAdaptiveInterpolation=False); 
    print(cls.__name__, "scalar direct shape", np.shape(J(1.0)), "array direct", np.shape(J(np.array([1.0,2.0]))), "2d", np.shape(J(np.array([[1.0,2.0]]))))
    t0=time.time(); J.newInterpolationTable(-2.0,5.0,15); print("   table 15 pts", round(time.time()-t0,2),"s; scalar interp shape", np.shape(J(1.0)), "outside NONE scalar", np.shape(J(7.0)))
