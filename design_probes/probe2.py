import warnings; warnings.filterwarnings("ignore")
import numpy as np, h5py, pathlib, tempfile, shutil, traceback
import WallGo
from WallGo import Grid, Grid3Scales, CollisionArray, Particle, BoltzmannSolver, Polynomial
# --- C17 probes
g=Grid3Scales(20,5,2.0,3.0,1.0,1.0,0.5,0.1,wallCenter=0.7)
chi=np.array([-0.5,0.0,0.3]); z,_,_=g.decompactify(chi,chi*0,chi*0)
print("G3S compactify(decompactify)", g.compactify(z,z*0,z*0+1)[0], "vs", chi)
g.changePositionFalloffScale(4.0,5.0,2.0,0.1)
print("positionFalloff after rescale", g.positionFalloff, "wallThickness", g.wallThickness)
# --- C14 probes
def mk(name): return Particle(name,0,lambda f:0*f.getField(0),lambda f:0*f, "Fermion",1)
def write(d, names, N, basis="Chebyshev", rng=None, sizes=None):
    d.mkdir(parents=True, exist_ok=True); out={}
    for a in names:
        for b in names:
            n = N if sizes is None else sizes.get((a,b),N)
            arr=rng.normal(size=(n-1,)*4)
            with h5py.File(d/f"collisions_{a}_{b}.hdf5","w") as f:
                m=f.create_group("metadata"); m.attrs["Basis Size"]=n; m.attrs["Basis Type"]=np.bytes_(basis)
                f.create_dataset(f"{a}, {b}", data=arr)
            out[(a,b)]=arr
    return out
rng=np.random.default_rng(0)
tmp=pathlib.Path(tempfile.mkdtemp(prefix="wallgo-probe-"))
try:
    names=["top","gluon"]; parts=[mk(n) for n in names]
    ref=write(tmp/"ok", names, 7, rng=rng)
    grid=Grid(4,7,1.0,1.0)
    ca=CollisionArray.newFromDirectory(tmp/"ok", grid, "Chebyshev", parts)
    print("same-size exact:", all(np.array_equal(ca[i,:,:,j,:,:], ref[(a,b)]) for i,a in enumerate(names) for j,b in enumerate(names)))
    # interpolation multi-particle vs single
    grid5=Grid(4,5,1.0,1.0)
    ca5=CollisionArray.newFromDirectory(tmp/"ok", grid5, "Chebyshev", parts)
    one=write(tmp/"one", ["top"], 7, rng=np.random.default_rng(0))
    # make single dir hold same top-top numbers
    with h5py.File(tmp/"one"/"collisions_top_top.hdf5","w") as f:
        m=f.create_group("metadata"); m.attrs["Basis Size"]=7; m.attrs["Basis Type"]=np.bytes_("Chebyshev")
        f.create_dataset("top, top", data=ref[("top","top")])
    ca5one=CollisionArray.newFromDirectory(tmp/"one", grid5, "Chebyshev", [parts[0]])
    print("interp pair independent of other particles:", np.allclose(ca5[0,:,:,0,:,:], ca5one[0,:,:,0,:,:]), np.abs(ca5[0,:,:,0,:,:]-ca5one[0,:,:,0,:,:]).max())
    # faults
    def attempt(label, d, grid, basis="Chebyshev", interp=True):
        try:
            CollisionArray.newFromDirectory(d, grid, basis, parts, interp); print(label, "-> OK")
        except BaseException as e: print(label, "->", type(e).__name__, str(e)[:70].replace("\n"," "))
    shutil.copytree(tmp/"ok", tmp/"miss"); (tmp/"miss"/"collisions_gluon_top.hdf5").unlink()
    attempt("missing", tmp/"miss", grid)
    attempt("oversized", tmp/"ok", Grid(4,9,1.0,1.0))
    write(tmp/"mism", names, 7, rng=rng, sizes={("gluon","gluon"):5})
    attempt("size mismatch", tmp/"mism", grid)
    attempt("no-interp mismatch", tmp/"ok", grid5, interp=False)
    shutil.copytree(tmp/"ok", tmp/"lfs"); (tmp/"lfs"/"collisions_top_gluon.hdf5").write_text("version https://git-lfs.github.com/spec/v1\noid sha256:abc\nsize 4648\n")
    attempt("lfs pointer", tmp/"lfs", grid)
    shutil.copytree(tmp/"ok", tmp/"trunc"); p=tmp/"trunc"/"collisions_top_gluon.hdf5"; b=p.read_bytes(); p.write_bytes(b[:len(b)//2])
    attempt("truncated", tmp/"trunc", grid)
    # solver-level atomicity
    bs=BoltzmannSolver(grid); bs.updateParticleList(parts); bs.loadCollisions(tmp/"ok"); old=bs.collisionArray
    try: bs.loadCollisions(tmp/"miss")
    except Exception as e: print("solver load miss ->", type(e).__name__, "kept old:", bs.collisionArray is old)
finally:
    shutil.rmtree(tmp)
