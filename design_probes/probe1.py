import warnings; warnings.filterwarnings("ignore")
import numpy as np, traceback
from WallGo import InterpolatableFunction, EExtrapolationType as E
class S(InterpolatableFunction):
    def __init__(s, R=1, adaptive=False):
        super().__init__(bUseAdaptiveInterpolation=adaptive, initialInterpolationPointCount=20, returnValueCount=R); s.R=R
    def _functionImplementation(s, x):
        x=np.asanyarray(x, dtype=float)
        if s.R==1: return np.sin(x)
        return np.stack([np.sin(x)*(k+1) for k in range(s.R)], axis=-1)
def t(name, fn):
    try: r=fn(); print(name, "OK", np.shape(r))
    except Exception as e: print(name, "EXC", type(e).__name__, str(e)[:80])
f=S(1); f.newInterpolationTable(0,1,10)
f.setExtrapolationType(E.CONSTANT,E.CONSTANT)
t("scalar const below", lambda: f(np.array([-1.0, 0.5])))
t("scalar const scalar-x", lambda: f(-1.0))
f.setExtrapolationType(E.NONE,E.NONE)
t("scalar none", lambda: f(np.array([-1.0, 0.5])))
g=S(3); g.newInterpolationTable(0,1,10); g.setExtrapolationType(E.CONSTANT,E.FUNCTION)
t("vec mixed", lambda: g(np.array([-1.0,0.5,2.0])))
t("vec 2d", lambda: g(np.array([[-1.0,0.5],[2.0,0.3]])))
t("vec deriv mixed", lambda: g.derivative(np.array([-1.0,0.5,2.0])))
t("vec deriv inside", lambda: g.derivative(np.array([0.2,0.5])))
t("vec deriv all outside", lambda: g.derivative(np.array([-1.0,2.0])))
t("scalar-x outside deriv", lambda: g.derivative(2.0))
# nan handling scalar valued
class N(S):
    def _functionImplementation(s,x):
        x=np.asanyarray(x,dtype=float); r=np.sin(x); return np.where(x<0.3, np.nan, r)
h=N(1)
t("nan scalar table", lambda: h.newInterpolationTable(0,1,10))
print("points", h.numPoints() if h.hasInterpolation() else None)
