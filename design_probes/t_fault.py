import sys, time, logging
sys.path.insert(0, '/repo')
import warnings; warnings.filterwarnings("ignore")
import numpy as np
import WallGo
from Models.Yukawa.yukawa import YukawaModel, EffectivePotentialYukawa
class Boom(Exception): pass
calls={"n":0,"arm":None}
orig=EffectivePotentialYukawa.evaluate
def ev(self, fields, T):
    calls["n"]+=1
    if calls["arm"] is not None and calls["n"]==calls["arm"]:
        raise ValueError("Im(Veff) injected")
    return orig(self, fields, T)
EffectivePotentialYukawa.evaluate=ev
def mk():
    m = WallGo.WallGoManager(); m.setVerbosity(logging.ERROR)
    m.config.configGrid.spatialGridSize = 20; m.config.configEOM.maxIterations = 25
    m.config.configThermodynamics.phaseTracerTol = 1e-8
    model = YukawaModel(); m.registerModel(model)
    model.modelParameters.update({"sigma": 0.0,"msq": 1.0,"gamma": -1.2,"lam": 0.10,"y": 0.55,"mf": 0.30})
    return m
def setup(m, Tn=8.0):
    m.setupThermodynamicsHydrodynamics(
        WallGo.PhaseInfo(temperature=Tn, phaseLocation1=WallGo.Fields([0.4]), phaseLocation2=WallGo.Fields([27.0])),
        WallGo.VeffDerivativeSettings(temperatureVariationScale=1.0, fieldValueVariationScale=[100.0]))
s = WallGo.WallSolverSettings(bIncludeOffEquilibrium=False, meanFreePathScale=5000.0, wallThicknessGuess=10.0)
m=mk(); calls["n"]=0; setup(m); nsetup=calls["n"]; calls["n"]=0
r0=m.solveWall(s); nsolve=calls["n"]; print("calls setup", nsetup, "solve", nsolve, "v", repr(r0.wallVelocity))
for frac in (0.1,0.5,0.9):
    calls["n"]=0; calls["arm"]=int(nsolve*frac)
    try: r=m.solveWall(s); print("faulted solve returned", r.wallVelocity, r.success)
    except Exception as e: print("faulted solve raised", type(e).__name__)
    calls["arm"]=None
    r1=m.solveWall(s); print(" after-fault equal:", r1.wallVelocity==r0.wallVelocity)
# fault during setup of another point
for frac in (0.2,0.6,0.95):
    calls["n"]=0; calls["arm"]=int(nsetup*frac)
    try: setup(m, 8.2); print("faulted setup ok?!")
    except Exception as e: print("faulted setup raised", type(e).__name__, "Tn now", m.phasesAtTn.temperature, "thermo.Tnucl", m.thermodynamics.Tnucl, "hydro.Tnucl", m.hydrodynamics.Tnucl)
    calls["arm"]=None
    try:
        r2=m.solveWall(s); print(" solve after failed setup:", repr(r2.wallVelocity), r2.success, r2.solutionType, "eq old:", r2.wallVelocity==r0.wallVelocity)
    except Exception as e: print(" solve after failed setup raised", type(e).__name__, str(e)[:80])
    setup(m, 8.0); r3=m.solveWall(s); print(" after re-setup equal:", r3.wallVelocity==r0.wallVelocity)
