import sys, time, logging, os, hashlib
os.environ["OPENBLAS_NUM_THREADS"]="1"
sys.path.insert(0, '/repo')
import warnings; warnings.filterwarnings("ignore")
import numpy as np
import WallGo
from WallGo.equationOfMotion import EOM
from Models.Yukawa.yukawa import YukawaModel
TRACE=[]
_orig=EOM.wallPressure
def traced(self, wallVelocity, wallParams, *a, **k):
    out=_orig(self, wallVelocity, wallParams, *a, **k)
    TRACE.append(dict(vw=float(wallVelocity), P=float(out[0]), okP=self.successWallPressure, okT=self.successTemperatureProfile, out=out, eom=self))
    return out
EOM.wallPressure=traced
def mk(M, maxit=25, errTol=1e-3):
    m = WallGo.WallGoManager(); m.setVerbosity(logging.ERROR)
    m.config.configGrid.spatialGridSize = M; m.config.configEOM.maxIterations = maxit; m.config.configEOM.errTol=errTol
    m.config.configThermodynamics.phaseTracerTol = 1e-8
    model = YukawaModel(); m.registerModel(model)
    model.modelParameters.update({"sigma": 0.0,"msq": 1.0,"gamma": -1.2,"lam": 0.10,"y": 0.55,"mf": 0.30})
    return m, model
def setup(m, Tn):
    m.setupThermodynamicsHydrodynamics(
        WallGo.PhaseInfo(temperature=Tn, phaseLocation1=WallGo.Fields([0.4]), phaseLocation2=WallGo.Fields([27.0])),
        WallGo.VeffDerivativeSettings(temperatureVariationScale=1.0, fieldValueVariationScale=[100.0]))
for Tn,M,errTol in ((8.0,20,1e-3),(7.0,16,3e-3),(8.3,24,1e-2)):
    m,model=mk(M,errTol=errTol); setup(m,Tn); TRACE.clear()
    s = WallGo.WallSolverSettings(bIncludeOffEquilibrium=False, meanFreePathScale=5000.0, wallThicknessGuess=10.0)
    r=m.solveWall(s); vw=r.wallVelocity; tol=errTol*(1+1e-9)
    below=[t for t in TRACE if vw-tol<=t["vw"]<=vw and t["P"]<=0]; above=[t for t in TRACE if vw<=t["vw"]<=vw+tol and t["P"]>=0]
    print(f"Tn={Tn} M={M} errTol={errTol} vw={vw:.6f} nEval={len(TRACE)} below={[(round(t['vw'],6),t['P']) for t in below][:2]} above={[(round(t['vw'],6),t['P']) for t in above][:2]} -> bracket OK={bool(below and above)}")
    last=TRACE[-1]
    print("   last eval at vw:", last["vw"]==vw, "widths bitwise:", np.array_equal(last["out"][1].widths, r.wallWidths), "Tprofile bitwise:", np.array_equal(last["out"][3].temperatureProfile, r.temperatureProfile), "T+ equal findMatching:", m.hydrodynamics.findMatching(vw)[2]==r.temperaturePlus)
    h=m.hydrodynamics; print("   window:", h.vMin, "<=", vw, "<=", min(h.vJ,h.fastestDeflag()))
    # 3b residuals with analytic dV/dT
    eom=last["eom"]; c1,c2,Tp,Tm,vmid=h.findHydroBoundaries(vw)
    T=r.temperatureProfile[1:-1]; v=r.velocityProfile[1:-1]
    from WallGo.containers import WallParams
    fields,dphi=eom.wallProfile(eom.grid.xiValues, m.thermodynamics.freeEnergyLow(Tm).fieldsAtMinimum, m.thermodynamics.freeEnergyHigh(Tp).fieldsAtMinimum, WallParams(r.wallWidths,r.wallOffsets))
    phi=np.asarray(fields)[:,0]; dphi=np.asarray(dphi)[:,0]; p=model.modelParameters
    y,mf=p["y"],p["mf"]
    dVdT = -np.pi**2/90*(1+4*7/8)*4*T**3 + (1/12)*(p["gamma"]+4*y*mf)*T*phi + 0.5*(1/12)*(p["lam"]+4*y**2)*T*phi**2
    V = np.asarray(model.effectivePotential.evaluate(WallGo.Fields(phi[:,None]), T))
    w=-T*dVdT; g2=1/(1-v**2)
    T30=w*g2*v; T33=0.5*dphi**2 - V + w*g2*v**2
    print("   3b: max|T30/c1-1| =", np.max(np.abs(T30/c1-1)), " max|T33-c2|/|c2| =", np.max(np.abs(T33-c2))/abs(c2), "okT", last["okT"])
