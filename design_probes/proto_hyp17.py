import os, sys, time; os.environ["OPENBLAS_NUM_THREADS"]="1"
import warnings; warnings.filterwarnings("ignore")
import numpy as np
from hypothesis import settings, seed, strategies as st, HealthCheck
from hypothesis.stateful import RuleBasedStateMachine, rule, invariant, initialize, run_state_machine_as_test
from WallGo import Grid3Scales
N_EX=[0]; N_ST=[0]
class G(RuleBasedStateMachine):
    @initialize(M=st.integers(3,40), N=st.sampled_from([3,5,7,11]), L=st.floats(1e-2,1e2), r=st.floats(0.1,0.9), s=st.floats(0.01,0.9), k1=st.floats(1.001,100), k2=st.floats(1.001,100), T=st.floats(1e-2,1e2), c=st.floats(-3,3))
    def init(self,M,N,L,r,s,k1,k2,T,c):
        lim=L*(0.5+s)/r
        self.g=Grid3Scales(M,N,lim*k1,lim*k2,L,T,r,s,c*L); N_EX[0]+=1
    @rule(L=st.floats(1e-2,1e2), k1=st.floats(1.001,100), k2=st.floats(1.001,100), c=st.floats(-3,3))
    def rescale(self,L,k1,k2,c):
        g=self.g; lim=L*(0.5+g.smoothing)/g.ratioPointsWall
        g.changePositionFalloffScale(lim*k1,lim*k2,L,c*L); N_ST[0]+=1
    @rule(T=st.floats(1e-2,1e2))
    def mom(self,T): self.g.changeMomentumFalloffScale(T); N_ST[0]+=1
    @invariant()
    def fresh(self):
        if not hasattr(self,"g"): return
        g=self.g; f=Grid3Scales(g.M,g.N,g.tailLengthInside,g.tailLengthOutside,g.wallThickness,g.momentumFalloffT,g.ratioPointsWall,g.smoothing,g.wallCenter)
        for k in ("xiValues","pzValues","ppValues","dxidchi","dpzdrz","dppdrp"): assert np.array_equal(getattr(g,k),getattr(f,k)), k
        assert np.all(np.diff(g.xiValues)>0)
t0=time.time()
run_state_machine_as_test(seed(int(sys.argv[1]))(G), settings=settings(database=None, deadline=None, report_multiple_bugs=False, max_examples=int(sys.argv[2]), stateful_step_count=12, suppress_health_check=list(HealthCheck)))
dt=time.time()-t0; print(f"examples {N_EX[0]} steps {N_ST[0]} in {dt:.1f}s -> {N_EX[0]/dt:.0f} ex/s, {N_ST[0]/dt:.0f} steps/s")
