import warnings; warnings.filterwarnings("ignore")
import numpy as np, h5py, pathlib, tempfile, shutil
from WallGo import Grid, CollisionArray, Particle, InterpolatableFunction, EExtrapolationType as E
def mk(name): return Particle(name,0,lambda f:0*f.getField(0),lambda f:0*f, "Fermion",1)
def write(d, names, N, basis="Chebyshev", sizes=None, bases=None):
    d.mkdir(parents=True, exist_ok=True); rng=np.random.default_rng(1)
    for a in names:
        for b in names:
            n = N if sizes is None else sizes.get((a,b),N)
            bt = basis if bases is None else bases.get((a,b),basis)
            with h5py.File(d/f"collisions_{a}_{b}.hdf5","w") as f:
                m=f.create_group("metadata"); m.attrs["Basis Size"]=n; m.attrs["Basis Type"]=np.bytes_(bt)
                f.create_dataset(f"{a}, {b}", data=rng.normal(size=(n-1,)*4))
tmp=pathlib.Path(tempfile.mkdtemp(prefix="wallgo-probe-")); names=["top","gluon"]; parts=[mk(n) for n in names]
def attempt(label, d, grid, basis="Chebyshev", interp=True):
    try: CollisionArray.newFromDirectory(d, grid, basis, parts, interp); print(label, "-> OK")
    except BaseException as e: print(label, "->", type(e).__name__, str(e)[:60].replace("\n"," "))
try:
    write(tmp/"big", names, 7, sizes={("gluon","gluon"):9}); attempt("later file larger", tmp/"big", Grid(4,7,1.,1.))
    write(tmp/"big0", names, 7, sizes={("top","top"):9}); attempt("first file larger", tmp/"big0", Grid(4,7,1.,1.))
    write(tmp/"bas", names, 7, bases={("gluon","top"):"Cardinal"}); attempt("basis mismatch", tmp/"bas", Grid(4,7,1.,1.))
    write(tmp/"badb", names, 7, basis="Legendre"); attempt("unknown basis", tmp/"badb", Grid(4,7,1.,1.))
finally: shutil.rmtree(tmp)
# C18 extend rounding
class S(InterpolatableFunction):
    def __init__(s): super().__init__(bUseAdaptiveInterpolation=True, initialInterpolationPointCount=20, returnValueCount=2)
    def _functionImplementation(s,x):
        x=np.asanyarray(x,dtype=float); return np.stack([np.sin(x),np.cos(x)],axis=-1)
rng=np.random.default_rng(0); bad=0; tot=0; worst=1
for t in range(20000):
    f=S(); a=rng.uniform(-5,5); b=a+rng.uniform(0.1,5); n=int(rng.integers(4,30))
    f.newInterpolationTable(a,b,n)
    try:
        f.extendInterpolationTable(a-rng.uniform(0.01,3), b+rng.uniform(0.01,3), int(rng.integers(1,12)), int(rng.integers(1,12)))
        d=np.diff(f._interpolationPoints); tot+=1
        rel=d.min()/np.median(d); worst=min(worst,rel)
        if rel<1e-6: bad+=1
    except Exception as e:
        bad+=1; 
        if bad<4: print("extend EXC", type(e).__name__, str(e)[:60])
print("extend trials", tot, "bad", bad, "worst min-spacing/median", worst)
# adaptive
f=S(); f._evaluationsUntilAdaptiveUpdate=5; f.newInterpolationTable(0,1,10)
for x in [1.5,1.7,2.0,-0.5,-1.0,3.0]:
    f(x)
print("adaptive range", f.interpolationRangeMin(), f.interpolationRangeMax(), f.numPoints(), "sorted", bool(np.all(np.diff(f._interpolationPoints)>0)))
