import os; os.environ["OPENBLAS_NUM_THREADS"]="1"
import warnings; warnings.filterwarnings("ignore")
import numpy as np, time
from scipy.integrate import quad
from WallGo import Grid, Grid3Scales
rng=np.random.default_rng(0)
def draw():
    L=10**rng.uniform(-2,2); r=rng.uniform(0.1,0.9); s=10**rng.uniform(-2,np.log10(0.9))
    lim=L*(0.5+s)/r
    tin=lim*(1+10**rng.uniform(-3,2)); tout=lim*(1+10**rng.uniform(-3,2)); c=L*rng.uniform(-3,3); T=10**rng.uniform(-2,2)
    return dict(tailLengthInside=tin,tailLengthOutside=tout,wallThickness=L,momentumFalloffT=T,ratioPointsWall=r,smoothing=s,wallCenter=c)
worstF=0; worstS=0; worst0=0; mono=True; t0=time.time(); worstJ=0; nbad=0
for t in range(300):
    p=draw(); M=int(rng.integers(3,50)); N=int(rng.choice([3,5,7,11]))
    g=Grid3Scales(M,N,spacing=str(rng.choice(["Spectral","Uniform"])),**p)
    z=g.xiValues; mono&=bool(np.all(np.diff(z)>0)) & bool(np.all(g.dxidchi>0))
    z0=g.decompactify(np.array(0.0),np.array(0.0),np.array(-1.0))
    worst0=max(worst0, abs(z0[0]-p["wallCenter"])/p["wallThickness"], abs(z0[1]), abs(z0[2]))
    J0=g.compactificationDerivatives(np.array(0.0),np.array(0.0),np.array(0.0))[0]
    worstS=max(worstS, abs(J0/(p["wallThickness"]/p["ratioPointsWall"])-1))
    # FTC on sub-intervals
    for k in range(3):
        a,b=np.sort(rng.uniform(-0.999,0.999,2))
        f=lambda x: float(g.compactificationDerivatives(np.array(x),np.array(0.),np.array(0.))[0])
        I,err=quad(f,a,b,epsabs=0,epsrel=1e-12,limit=200, points=[x for x in (-p["ratioPointsWall"],p["ratioPointsWall"]) if a<x<b] or None)
        za=g.decompactify(np.array(a),np.array(0.),np.array(0.))[0]; zb=g.decompactify(np.array(b),np.array(0.),np.array(0.))[0]
        rel=abs((zb-za)-I)/max(abs(I),1e-300)
        if rel>1e-9: nbad+=1; print("FTC bad", rel, p, a, b)
        worstF=max(worstF,rel)
    # momentum jacobians via FTC too
    a,b=np.sort(rng.uniform(-0.99,0.99,2))
    I,_=quad(lambda x: float(g.compactificationDerivatives(np.array(0.),np.array(x),np.array(0.))[1]),a,b,epsrel=1e-12,epsabs=0)
    d=g.decompactify(np.array(0.),np.array(b),np.array(0.))[1]-g.decompactify(np.array(0.),np.array(a),np.array(0.))[1]
    worstJ=max(worstJ,abs(d-I)/abs(I))
    I,_=quad(lambda x: float(g.compactificationDerivatives(np.array(0.),np.array(0.),np.array(x))[2]),a,b,epsrel=1e-12,epsabs=0)
    d=g.decompactify(np.array(0.),np.array(0.),np.array(b))[2]-g.decompactify(np.array(0.),np.array(0.),np.array(a))[2]
    worstJ=max(worstJ,abs(d-I)/abs(I))
print("mono",mono,"origin",worst0,"slope",worstS,"FTC z",worstF,"FTC p",worstJ,"bad",nbad,"t",time.time()-t0)
# history == fresh (bitwise)
g=Grid3Scales(20,5,**draw()); ok=True
for t in range(200):
    p=draw()
    try: g.changePositionFalloffScale(p["tailLengthInside"],p["tailLengthOutside"],p["wallThickness"],p["wallCenter"])
    except AssertionError: print("rejected"); continue
    if rng.random()<0.3: g.changeMomentumFalloffScale(p["momentumFalloffT"])
    f=Grid3Scales(20,5,g.tailLengthInside,g.tailLengthOutside,g.wallThickness,g.momentumFalloffT,g.ratioPointsWall,g.smoothing,g.wallCenter)
    for k in ("xiValues","pzValues","ppValues","dxidchi","dpzdrz","dppdrp"):
        ok&=np.array_equal(getattr(g,k),getattr(f,k))
print("history==fresh bitwise", ok)
