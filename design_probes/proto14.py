import os; os.environ["OPENBLAS_NUM_THREADS"]="1"
import warnings; warnings.filterwarnings("ignore")
import numpy as np, h5py, pathlib, tempfile, shutil
from numpy.polynomial import chebyshev as C
from WallGo import Grid, CollisionArray, Particle
# independent bases ---------------------------------------------------------
def nodes(N):
    rz=-np.cos(np.arange(1,N)*np.pi/N)           # pz interior (N-1)
    rp=-np.cos(np.arange(0,N-1)*np.pi/(N-1))     # pp: includes -1, excludes +1  (N-1)
    return rz,rp
def Tn(n,x): return C.chebval(x, [0]*n+[1])
def Tbar(j,x):   # pz restricted: j=2..N
    return Tn(j,x) - (1.0 if j%2==0 else x)
def Ttil(k,x):   # pp restricted: k=1..N-1
    return Tn(k,x) - 1.0
def Mz(N, x=None):
    rz,_=nodes(N); x=rz if x is None else x
    return np.array([[Tbar(j,xi) for j in range(2,N+1)] for xi in x])     # (pts, N-1)
def Mp(N, x=None):
    _,rp=nodes(N); x=rp if x is None else x
    return np.array([[Ttil(k,xi) for k in range(1,N)] for xi in x])       # (pts, N-1)
def action(Cab, basis, N, fvals):
    """Cab: (N-1,N-1,N-1,N-1) [alpha,beta,j,k]; fvals: values of deltaF on the (rz,rp) grid."""
    if basis=="Cardinal": coef=fvals
    else:
        coef=np.linalg.solve(Mz(N), fvals)            # along pz
        coef=np.linalg.solve(Mp(N), coef.T).T         # along pp
    return np.einsum("abjk,jk->ab", Cab, coef)
def cardinal_interp_eval(vals, N, xz, xp):
    """vals on (rz,rp) grid of size N, polynomial vanishing at rz=+-1 and rp=+1; evaluate at points."""
    coef=np.linalg.solve(Mz(N), vals); coef=np.linalg.solve(Mp(N), coef.T).T
    return Mz(N,xz) @ coef @ Mp(N,xp).T
# fixtures -------------------------------------------------------------------
def mk(name): return Particle(name,0,lambda f:0*f.getField(0),lambda f:0*f, "Fermion",1)
def write(d, names, N, basis, rng):
    d.mkdir(parents=True, exist_ok=True); out={}
    for a in names:
        for b in names:
            arr=rng.normal(size=(N-1,)*4)
            with h5py.File(d/f"collisions_{a}_{b}.hdf5","w") as f:
                m=f.create_group("metadata"); m.attrs["Basis Size"]=N; m.attrs["Basis Type"]=np.bytes_(basis)
                f.create_dataset(f"{a}, {b}", data=arr)
            out[(a,b)]=arr
    return out
rng=np.random.default_rng(3); tmp=pathlib.Path(tempfile.mkdtemp(prefix="wallgo-probe-"))
try:
    for names in (["top"],["top","gluon"]):
      parts=[mk(n) for n in names]
      for fb in ("Chebyshev","Cardinal"):
        for rb in ("Chebyshev","Cardinal"):
            N=7; d=tmp/f"{len(names)}{fb}{rb}"; ref=write(d,names,N,fb,rng)
            ca=CollisionArray.newFromDirectory(d, Grid(4,N,1.,1.), rb, parts)
            worst=0
            for t in range(5):
                f=rng.normal(size=(N-1,N-1))
                for i,a in enumerate(names):
                    for j,b in enumerate(names):
                        A1=action(ca[i,:,:,j,:,:], rb, N, f); A0=action(ref[(a,b)], fb, N, f)
                        worst=max(worst, np.abs(A1-A0).max()/np.abs(A0).max())
            print(f"P={len(names)} file={fb:9s} req={rb:9s} same-size action rel.err {worst:.2e}")
    # interpolation, single particle
    for names in (["top"],["top","gluon"]):
      parts=[mk(n) for n in names]
      for fb in ("Chebyshev","Cardinal"):
        NL,NS=9,5; d=tmp/f"i{len(names)}{fb}"; ref=write(d,names,NL,fb,rng)
        ca=CollisionArray.newFromDirectory(d, Grid(4,NS,1.,1.), "Chebyshev", parts)
        rzS,rpS=nodes(NS); worst=0
        for t in range(5):
            cS=rng.normal(size=(NS-1,NS-1))                 # coefficients in small restricted Chebyshev basis
            fL=Mz(NS,nodes(NL)[0]) @ cS @ Mp(NS,nodes(NL)[1]).T   # its values on the large grid
            for i,a in enumerate(names):
                for j,b in enumerate(names):
                    AL=action(ref[(a,b)], fb, NL, fL)              # collision term on large grid points
                    expect=cardinal_interp_eval(AL, NL, rzS, rpS)  # interpolated to small-grid points
                    got=np.einsum("abjk,jk->ab", ca[i,:,:,j,:,:], cS)
                    worst=max(worst, np.abs(got-expect).max()/np.abs(expect).max())
        print(f"P={len(names)} file={fb:9s} interp 9->5 action rel.err {worst:.2e}")
finally: shutil.rmtree(tmp)
