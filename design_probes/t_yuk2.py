import sys, time, logging, pathlib, tempfile, shutil
sys.path.insert(0, '/repo')
import warnings; warnings.filterwarnings("ignore")
import numpy as np, h5py
import WallGo
from Models.Yukawa.yukawa import YukawaModel
def writeRTA(d, names, N, gam, mix=0.0):
    d.mkdir(parents=True, exist_ok=True)
    for a in names:
        for b in names:
            n=N-1
            arr=np.zeros((n,n,n,n))
            c = gam if a==b else mix
            for i in range(n):
                for j in range(n):
                    arr[i,j,i,j]=c
            with h5py.File(d/f"collisions_{a}_{b}.hdf5","w") as f:
                m=f.create_group("metadata"); m.attrs["Basis Size"]=N; m.attrs["Basis Type"]=np.bytes_("Cardinal")
                f.create_dataset(f"{a}, {b}", data=arr)
tmp=pathlib.Path(tempfile.mkdtemp(prefix="wallgo-probe-"))
try:
    N=int(sys.argv[1]); gam=float(sys.argv[2])
    writeRTA(tmp, ["psiL","psiR"], N, gam, mix=-0.2*gam)
    manager = WallGo.WallGoManager(); manager.setVerbosity(logging.ERROR)
    manager.config.configGrid.spatialGridSize = 20
    manager.config.configGrid.momentumGridSize = N
    manager.config.configEOM.maxIterations = 25
    manager.config.configThermodynamics.phaseTracerTol = 1e-8
    manager.setPathToCollisionData(tmp)
    model = YukawaModel(); manager.registerModel(model)
    model.modelParameters.update({"sigma": 0.0,"msq": 1.0,"gamma": -1.2,"lam": 0.10,"y": 0.55,"mf": 0.30})
    manager.setupThermodynamicsHydrodynamics(
        WallGo.PhaseInfo(temperature=8.0, phaseLocation1=WallGo.Fields([0.4]), phaseLocation2=WallGo.Fields([27.0])),
        WallGo.VeffDerivativeSettings(temperatureVariationScale=1.0, fieldValueVariationScale=[100.0]))
    s = WallGo.WallSolverSettings(bIncludeOffEquilibrium=True, meanFreePathScale=float(sys.argv[3]), wallThicknessGuess=10.0)
    t0=time.time(); r = manager.solveWall(s); t1=time.time()
    print("offEq", repr(r.wallVelocity), float(r.wallVelocity).hex(), r.wallVelocityLTE, r.success, r.solutionType, r.message, "trunc", r.truncationError, t1-t0)
    r2 = manager.solveWall(s); print("again equal:", r2.wallVelocity==r.wallVelocity, np.array_equal(r.deltaF, r2.deltaF))
finally:
    shutil.rmtree(tmp)
