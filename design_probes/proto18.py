import os; os.environ["OPENBLAS_NUM_THREADS"]="1"
import warnings; warnings.filterwarnings("ignore")
import numpy as np, tempfile, pathlib, logging
logging.disable(logging.CRITICAL)
from scipy.interpolate import CubicSpline
from WallGo import InterpolatableFunction, EExtrapolationType as E
class V(InterpolatableFunction):
    def __init__(s,R,adaptive=False,n0=20):
        super().__init__(bUseAdaptiveInterpolation=adaptive, initialInterpolationPointCount=n0, returnValueCount=R); s.R=R; s.calls=0
    def f(s,x):
        x=np.asanyarray(x,dtype=float)
        comps=[np.sin(x), np.cos(0.7*x)+0.1*x, np.exp(-0.3*x*x), 1/(1+x*x)][:s.R]
        return comps[0] if s.R==1 else np.stack(comps,axis=-1)
    def _functionImplementation(s,x): s.calls+=1; return s.f(x)
rng=np.random.default_rng(1)
g=V(3); g.newInterpolationTable(-1.0,2.0,25)
xs=np.asarray(g._interpolationPoints); vals=np.asarray(g._interpolationValues)
sp=CubicSpline(xs,vals,axis=0,extrapolate=True)
x=rng.uniform(-1,2,50)
print("inside == harness spline bitwise:", np.array_equal(g(x), sp(x)), " max|spline-f|", np.abs(g(x)-g.f(x)).max())
for lo,up in [(E.CONSTANT,E.FUNCTION),(E.FUNCTION,E.CONSTANT),(E.NONE,E.CONSTANT),(E.CONSTANT,E.NONE)]:
    g.setExtrapolationType(lo,up)
    xl=np.array([-3.0,-1.5]); xu=np.array([2.5,4.0])
    r=g(np.concatenate([xl,xu]))
    exp={E.CONSTANT:lambda xx,side: np.broadcast_to(vals[0 if side=="l" else -1],(len(xx),3)), E.FUNCTION:lambda xx,side: sp(xx), E.NONE:lambda xx,side: g.f(xx)}
    e=np.concatenate([exp[lo](xl,"l"),exp[up](xu,"u")])
    print(lo.name,up.name,"max rel dev", np.max(np.abs(r-e)/np.maximum(np.abs(e),1e-300)))
# input forms
g.setExtrapolationType(E.CONSTANT,E.FUNCTION)
for name,xx in [("pyfloat in",0.5),("pyfloat out",3.0),("0-d",np.array(0.5)),("list",[0.1,3.0,-2.0]),("2d",np.array([[0.1,3.0],[-2.0,1.0]])),("empty",np.array([]))]:
    try: print(name, np.shape(g(xx)))
    except Exception as e: print(name,"EXC",type(e).__name__,str(e)[:60])
# derivative all-outside and inside
xo=np.array([2.5,3.0]); d=g.derivative(xo); print("deriv FUNCTION outside vs spline'", np.max(np.abs(d-sp.derivative(1)(xo))/np.abs(sp.derivative(1)(xo))))
xo=np.array([-2.5,-3.0]); d=g.derivative(xo); print("deriv CONSTANT outside max|d|", np.abs(d).max())
xi=np.array([0.3,1.1]); print("deriv inside bitwise", np.array_equal(g.derivative(xi), sp.derivative(1)(xi)), np.array_equal(g.derivative(xi,order=2), sp.derivative(2)(xi)))
# near-boundary derivative outside (stencil crosses into table)
xo=np.array([2.0+1e-4]); d=g.derivative(xo); print("deriv just outside (FUNCTION) vs spline'", d, sp.derivative(1)(xo))
g.setExtrapolationType(E.NONE,E.NONE); d=g.derivative(np.array([2.5])); fp=np.array([np.cos(2.5), -0.7*np.sin(0.7*2.5)+0.1, -0.6*2.5*np.exp(-0.3*6.25)]); print("deriv NONE outside abs err", np.abs(d-fp).max())
# exact boundary
g.setExtrapolationType(E.ERROR,E.ERROR); print("at boundary ok:", np.shape(g(np.array([-1.0,2.0]))))
try: g(np.array([2.0000001])); print("no error?!")
except ValueError: print("ERROR mode raises ValueError")
# write/read
tmp=pathlib.Path(tempfile.mkdtemp(prefix="wallgo-probe-")); p=tmp/"t.txt"; g.writeInterpolationTable(str(p)); h=V(3); h.readInterpolationTable(str(p))
print("roundtrip x rel", np.max(np.abs(h._interpolationPoints-xs)/np.maximum(np.abs(xs),1e-300)), "vals rel", np.max(np.abs(h._interpolationValues-vals)/np.abs(vals)), "n", h.numPoints())
s1=V(1); s1.newInterpolationTable(0,1,7); s1.writeInterpolationTable(str(p)); s2=V(1); s2.readInterpolationTable(str(p)); print("R=1 roundtrip shape", np.shape(s2._interpolationValues), np.shape(s2(0.5)), np.shape(s2(np.array([0.2,0.4]))))
before=h.numPoints(); h.readInterpolationTable(str(tmp/"nope.txt")); print("missing read keeps table:", h.numPoints()==before)
import shutil; shutil.rmtree(tmp)
# adaptive with NONE: direct evals scheduled, update triggers
a=V(2,adaptive=True,n0=20); a._evaluationsUntilAdaptiveUpdate=4; a.newInterpolationTable(0,1,10)
for xx in (1.2,1.3,[1.4,1.5,-0.2]): a(xx)
print("adaptive: range", a.interpolationRangeMin(), a.interpolationRangeMax(), "n", a.numPoints(), "pending", a._directEvaluateCount)
# NaN rows for R>1
class Nn(V):
    def f(s,x):
        r=V.f(s,x); r=np.array(r,dtype=float); xx=np.asanyarray(x,dtype=float); r[(xx>0.3)&(xx<0.5),1]=np.nan; return r
n=Nn(3); n.newInterpolationTable(0,1,21); print("NaN rows dropped individually (R=3): n=", n.numPoints(), "expected", 21-int(np.sum((np.linspace(0,1,21)>0.3)&(np.linspace(0,1,21)<0.5))))
