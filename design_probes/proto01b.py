import sys, time, logging, os, pathlib, tempfile, shutil
os.environ["OPENBLAS_NUM_THREADS"]="1"
sys.path.insert(0, '/repo')
import warnings; warnings.filterwarnings("ignore")
import numpy as np, h5py
import WallGo
from WallGo.equationOfMotion import EOM
from Models.Yukawa.yukawa import YukawaModel
TRACE=[]; _o=EOM.wallPressure
def tr(self,v,wp,*a,**k):
    out=_o(self,v,wp,*a,**k); TRACE.append(dict(vw=float(v),P=float(out[0]),okP=self.successWallPressure,okT=self.successTemperatureProfile,out=out)); return out
EOM.wallPressure=tr
def writeRTA(d, names, N, gam, mix):
    d.mkdir(parents=True, exist_ok=True)
    for a in names:
        for b in names:
            n=N-1; arr=np.zeros((n,n,n,n)); c=gam if a==b else mix
            for i in range(n):
                for j in range(n): arr[i,j,i,j]=c
            with h5py.File(d/f"collisions_{a}_{b}.hdf5","w") as f:
                m=f.create_group("metadata"); m.attrs["Basis Size"]=N; m.attrs["Basis Type"]=np.bytes_("Cardinal")
                f.create_dataset(f"{a}, {b}", data=arr)
tmp=pathlib.Path(tempfile.mkdtemp(prefix="wallgo-probe-"))
try:
    Nf,Nt,gam,Tn,M=int(sys.argv[1]),int(sys.argv[2]),float(sys.argv[3]),float(sys.argv[4]),int(sys.argv[5])
    writeRTA(tmp,["psiL","psiR"],Nf,gam,-0.2*gam)
    m=WallGo.WallGoManager(); m.setVerbosity(logging.ERROR)
    m.config.configGrid.spatialGridSize=M; m.config.configGrid.momentumGridSize=Nt; m.config.configEOM.maxIterations=25
    m.config.configThermodynamics.phaseTracerTol=1e-8; m.setPathToCollisionData(tmp)
    model=YukawaModel(); m.registerModel(model)
    model.modelParameters.update({"sigma": 0.0,"msq": 1.0,"gamma": -1.2,"lam": 0.10,"y": 0.55,"mf": 0.30})
    m.setupThermodynamicsHydrodynamics(WallGo.PhaseInfo(temperature=Tn, phaseLocation1=WallGo.Fields([0.4]), phaseLocation2=WallGo.Fields([27.0])),
        WallGo.VeffDerivativeSettings(temperatureVariationScale=1.0, fieldValueVariationScale=[100.0]))
    s=WallGo.WallSolverSettings(bIncludeOffEquilibrium=True, meanFreePathScale=50.0, wallThicknessGuess=10.0)
    t0=time.time(); r=m.solveWall(s); dt=time.time()-t0; vw=r.wallVelocity; tol=m.config.configEOM.errTol*(1+1e-9)
    if vw is not None:
        below=[t for t in TRACE if vw-tol<=t["vw"]<=vw and t["P"]<=0]; above=[t for t in TRACE if vw<=t["vw"]<=vw+tol and t["P"]>=0]
        last=TRACE[-1]
        print(f"Nfile={Nf} Ntarget={Nt} gam={gam} Tn={Tn} M={M}: vw={vw:.6f} LTE={r.wallVelocityLTE:.4f} succ={r.success} {r.solutionType.name} nEval={len(TRACE)} bracketOK={bool(below and above)} lastAtVw={last['vw']==vw} profBitwise={np.array_equal(last['out'][3].temperatureProfile, r.temperatureProfile)} dF bitwise={np.array_equal(last['out'][2].deltaF, r.deltaF)} t={dt:.1f}")
    else: print("no velocity", r.solutionType, r.message)
finally: shutil.rmtree(tmp)
