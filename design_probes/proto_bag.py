import sys, time, logging, os
os.environ["OPENBLAS_NUM_THREADS"]="1"
import warnings; warnings.filterwarnings("ignore")
import numpy as np
import WallGo
from WallGo import Fields, GenericModel, EffectivePotential
from WallGo.equationOfMotion import EOM
TRACE=[]
_o=EOM.wallPressure
def tr(self,v,wp,*a,**k):
    out=_o(self,v,wp,*a,**k); TRACE.append((float(v),float(out[0]))); return out
EOM.wallPressure=tr
class VBag(EffectivePotential):
    fieldCount=1; effectivePotentialError=1e-15
    def __init__(s,a,msq,mu,lam,cT): s.a,s.msq,s.mu,s.lam,s.cT=a,msq,mu,lam,cT
    def evaluate(s,fields,T):
        f=Fields(fields); phi=f.getField(0); T=np.asarray(T)
        return np.array(-s.a*T**4 + 0.5*(s.msq+s.cT*T**2)*phi**2 - s.mu/3*phi**3 + s.lam/4*phi**4)
class MBag(GenericModel):
    def __init__(s,*p): s.v=VBag(*p); s.clearParticles()
    @property
    def fieldCount(s): return 1
    def getEffectivePotential(s): return s.v
cT=float(sys.argv[1]); Tn=float(sys.argv[2])
m=WallGo.WallGoManager(); m.setVerbosity(logging.ERROR); m.config.configGrid.spatialGridSize=20
model=MBag(3.0,1.0,3.3,2.0,cT); m.registerModel(model)
# minima of V0: phi*(msq - mu phi + lam phi^2)=0
t0=time.time()
try:
    m.setupThermodynamicsHydrodynamics(WallGo.PhaseInfo(temperature=Tn, phaseLocation1=Fields([0.0]), phaseLocation2=Fields([1.2])),
        WallGo.VeffDerivativeSettings(temperatureVariationScale=0.5*Tn, fieldValueVariationScale=[1.0]))
    h=m.hydrodynamics; print("vJ",h.vJ,"vMin",h.vMin,"alN",h.template.alN,"psiN",h.template.psiN,"LTE",m.wallSpeedLTE())
    r=m.solveWall(WallGo.WallSolverSettings(bIncludeOffEquilibrium=False, meanFreePathScale=50.0, wallThicknessGuess=5.0))
    print("solve:", r.wallVelocity, r.success, r.solutionType.name, r.message[:70], "t", time.time()-t0); print("trace", TRACE)
except Exception as e:
    import traceback; traceback.print_exc(limit=3)
