#!/bin/bash
# usage: tools/confirm_tests.sh <worktree> <mutation-dir>   -> prints the pytest summary line with the patch applied
WT="$1"; MD="$2"
export OPENBLAS_NUM_THREADS=1 OMP_NUM_THREADS=1
git -C "$WT" checkout -q -- . && git -C "$WT" checkout -q --detach main && git -C "$WT" apply "$MD/patch.diff" || exit 9
( cd "$WT" && PYTHONPATH="$WT/src" timeout 1800 /venv/bin/python -m pytest -q -p no:cacheprovider --timeout=900 2>&1 | tail -1 )
git -C "$WT" checkout -q -- .
