#!/venv/bin/python
"""Regenerates the table of section 7 of DESIGN.md from seeded/*/meta.json."""
import glob, json, re
FIRST = {"C17-a1","C17-a2","C17-b1","C18-a2","C18-b2","C14-a1","C14-a2","C17-c1","C17-c2","C17-d1",
         "C17-d2","C14-c1","C14-d1","C14-d2","C18-d2","C17-e2","C17-e3","C17-f1","C18-f1","C18-f2",
         "C14-e1","C14-e2","C14-f1","C14-f2","C14-f3","C01-e1","C01-f1","C01-f2","C01-c1"}
rows = []
for path in sorted(glob.glob("/verif/seeded/*/meta.json")):
    m = json.load(open(path))
    if "caught_when" not in m:
        m["caught_when"] = "first" if m["id"] in FIRST else "after strengthening"
    json.dump(m, open(path, "w"), indent=1)
    rows.append(m)
table = "| id | what the change does | needs | caught | by (first violation key) |\n|---|---|---|---|---|\n"
for m in rows:
    when = {"first": "first", "not caught": "NO"}.get(m["caught_when"], "after")
    table += f"| {m['id']} | {m['breaks']} | {m['needs_to_manifest']} | {when} | {m['caught_by']} |\n"
p = "/verif/DESIGN.md"
s = open(p).read()
start = s.index("| id | what the change does | needs | caught |")
end = s.index("\nWhat the misses taught")
s = s[:start] + table + s[end:]
open(p, "w").write(s)
n_first = sum(1 for m in rows if m["caught_when"] == "first")
n_not = sum(1 for m in rows if m["caught_when"] == "not caught")
print(len(rows), "seeded changes;", n_first, "caught at first,", len(rows) - n_first - n_not,
      "after strengthening,", n_not, "not caught")
