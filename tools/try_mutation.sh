#!/bin/bash
# usage: tools/try_mutation.sh <worktree> <mutation-dir> <property> [extra check args]
# Confirms a seeded change (demo passes without / fails with it, test suite
# unchanged) and runs the property's check against the patched worktree.
WT="$1"; MD="$2"; PROP="$3"; shift 3
export OPENBLAS_NUM_THREADS=1 OMP_NUM_THREADS=1
git -C "$WT" checkout -q -- . && git -C "$WT" checkout -q --detach main || exit 9
( cd "$WT" && PYTHONPATH="$WT/src" timeout 1200 /venv/bin/python "$MD/demo.py" >/dev/null 2>&1 ); echo "demo on clean tree: exit $?"
git -C "$WT" apply "$MD/patch.diff" || { echo "PATCH DOES NOT APPLY"; exit 9; }
( cd "$WT" && PYTHONPATH="$WT/src" timeout 1200 /venv/bin/python "$MD/demo.py" >/dev/null 2>&1 ); echo "demo with patch: exit $?"
if [ -z "$SKIP_TESTS" ]; then
( cd "$WT" && PYTHONPATH="$WT/src" timeout 1800 /venv/bin/python -m pytest -q -p no:cacheprovider --timeout=900 2>&1 | tail -1 )
fi
WGSIM_REPO_SRC="$WT/src" timeout 7200 /verif/bin/check "$PROP" --no-evidence --no-selfcheck --replay-dir seeded "$@" 2>&1 | grep "^violation\|^SUMMARY\|HARNESS" | cut -c1-300
echo "check exit: ${PIPESTATUS[0]}"
git -C "$WT" checkout -q -- .
