#!/bin/bash
# usage: tools/run_seeded.sh <id-glob> [extra check args]
# Re-runs the property check against every stored seeded change matching the glob
# (in a scratch worktree of /repo main; /repo is never touched). Prints one line per change.
GLOB="${1:-*}"; shift
WT=/tmp/wt_seeded_$$
git -C /repo worktree add -q --detach "$WT" main || exit 9
trap 'git -C /repo worktree remove --force "$WT"; git -C /repo worktree prune' EXIT
for d in /verif/seeded/$GLOB/; do
  id=$(basename "$d"); prop=${id%%-*}
  git -C "$WT" reset -q --hard && git -C "$WT" clean -fdq
  patch="$d/patch.diff"; [ -f "$d/patch_main.diff" ] && patch="$d/patch_main.diff"
  if ! git -C "$WT" apply "$patch" 2>/dev/null; then
    echo "$id: PATCH-DOES-NOT-APPLY-TO-MAIN (made against an older HEAD; port it to seeded/$id/patch_main.diff)"; continue
  fi
  out=$(WGSIM_REPO_SRC="$WT/src" timeout 7200 /verif/bin/check "$prop" --no-evidence --no-selfcheck --no-minimise --replay-dir seeded "$@" 2>&1)
  code=$?
  key=$(echo "$out" | grep -m1 "^violation key=" | cut -d' ' -f2)
  echo "$id: exit=$code ${key:-no-violation} $(echo "$out" | grep -o 'wall_s=[0-9.]*')"
done
