"""
wgsim.core -- the shared deterministic-simulation engine.

One run = one seeded *history*: a list of steps executed by a machine's step
interpreter against real WallGo objects.  Everything a run decides is derived
from one integer (seed_i) through named random.Random streams; logging never
draws from a PRNG and never reads a clock.  See /verif/DESIGN.md section 2.
"""

from __future__ import annotations

import collections
import hashlib
import json
import os
import pickle
import random
import select
import shutil
import signal
import time
import struct
import tempfile
import traceback
from typing import Any, Callable, Iterable

import numpy as np

ENGINE_VERSION = 3
VERIF_ROOT = os.path.dirname(os.path.dirname(os.path.abspath(__file__)))


# --------------------------------------------------------------------------
# seeds
# --------------------------------------------------------------------------
def deriveSeed(prop: str, baseSeed: int, index: int) -> int:
    """seed_i of run *index* of a batch; a pure function of its arguments."""
    h = hashlib.sha256(f"{prop}:{baseSeed}:{index}".encode()).hexdigest()
    return int(h[:16], 16)


def stream(seedI: int, name: str) -> random.Random:
    """Independent PRNG stream; str seeding is hash-seed independent."""
    return random.Random(f"{seedI}:{name}")


# --------------------------------------------------------------------------
# digests (bytes of floats, never reprs)
# --------------------------------------------------------------------------
def _feed(h: Any, obj: Any) -> None:
    if obj is None:
        h.update(b"N")
    elif isinstance(obj, (bool, np.bool_)):
        h.update(b"B1" if obj else b"B0")
    elif isinstance(obj, (int, np.integer)):
        h.update(b"I" + str(int(obj)).encode())
    elif isinstance(obj, (float, np.floating)):
        h.update(b"F" + struct.pack("<d", float(obj)))
    elif isinstance(obj, (complex, np.complexfloating)):
        h.update(b"C" + struct.pack("<dd", obj.real, obj.imag))
    elif isinstance(obj, str):
        h.update(b"S" + obj.encode() + b"\0")
    elif isinstance(obj, bytes):
        h.update(b"Y" + obj + b"\0")
    elif isinstance(obj, np.ndarray):
        arr = np.ascontiguousarray(obj)
        h.update(b"A" + str(arr.dtype).encode() + str(arr.shape).encode())
        if arr.dtype == object:
            for item in arr.ravel():
                _feed(h, item)
        else:
            h.update(arr.tobytes())
    elif isinstance(obj, (list, tuple)):
        h.update(b"L" + str(len(obj)).encode())
        for item in obj:
            _feed(h, item)
    elif isinstance(obj, dict):
        h.update(b"D" + str(len(obj)).encode())
        for key in sorted(obj, key=str):
            _feed(h, str(key))
            _feed(h, obj[key])
    else:
        raise HarnessError(f"cannot digest object of type {type(obj)!r}")


def digest(obj: Any) -> str:
    h = hashlib.sha256()
    _feed(h, obj)
    return h.hexdigest()


# --------------------------------------------------------------------------
# exceptions
# --------------------------------------------------------------------------
class Violation(Exception):
    """The property does not hold on this history.  key never contains a seed."""

    def __init__(self, oracle: str, cause: str, message: str, details: Any = None):
        super().__init__(message)
        self.oracle = oracle
        self.cause = cause
        self.key = f"{oracle}/{cause}"
        self.message = message
        self.details = details


class HarnessError(Exception):
    """The machinery failed (never reported as a VIOLATION)."""


class Skip(Exception):
    """A step's precondition does not hold in this state (only possible while
    minimising, when earlier steps were removed); the step becomes a no-op."""


class RunTimeout(Exception):
    pass


# --------------------------------------------------------------------------
# run context shared between interpreter, fault layer and oracles
# --------------------------------------------------------------------------
class Ctx:
    def __init__(self) -> None:
        self.faultFired: collections.Counter = collections.Counter()
        self.probes: collections.Counter = collections.Counter()
        self.checks: collections.Counter = collections.Counter()
        self.states: set = set()
        self.maxima: dict = {}
        self._scratch: str | None = None

    def margin(self, name: str, ratio: float) -> None:
        """largest observed (discrepancy / tolerance) per oracle: how close the
        unchanged code comes to each threshold (reported in the evidence)"""
        if ratio > self.maxima.get(name, 0.0):
            self.maxima[name] = float(ratio)

    def scratch(self) -> str:
        if self._scratch is None:
            base = os.environ.get("WGSIM_SCRATCH") or None
            self._scratch = tempfile.mkdtemp(prefix="wgsim_", dir=base)
        return self._scratch

    def cleanup(self) -> None:
        if self._scratch is not None:
            shutil.rmtree(self._scratch, ignore_errors=True)
            self._scratch = None


class Machine:
    """Interface every property module implements."""

    PROP = "?"
    MAX_STEPS = 12
    #: ops that mutate state / ops that carry a checked observation
    MUTATORS: frozenset = frozenset()
    OBSERVERS: frozenset = frozenset()

    def __init__(self, cfg: dict, ctx: Ctx):
        self.cfg = cfg
        self.ctx = ctx

    @staticmethod
    def drawConfig(rng: random.Random, tier: str) -> dict:
        raise NotImplementedError

    def nextStep(self, rng: random.Random, index: int) -> dict | None:
        raise NotImplementedError

    def execute(self, step: dict) -> Any:
        """Execute one step on the real objects, check every oracle that
        applies, return a digestable observation."""
        raise NotImplementedError

    def abstraction(self) -> Any:
        return None

    def close(self) -> None:
        pass

    # minimisation helpers (optional)
    def simplerSteps(self, step: dict) -> Iterable[dict]:
        return ()

    @staticmethod
    def simplerConfigs(cfg: dict) -> Iterable[dict]:
        return ()


# --------------------------------------------------------------------------
# executing one history
# --------------------------------------------------------------------------
def _historyHash(cfg: dict, steps: list) -> str:
    return hashlib.sha256(
        json.dumps([cfg, steps], sort_keys=True, default=_jsonDefault).encode()
    ).hexdigest()


def _jsonDefault(obj: Any) -> Any:
    if isinstance(obj, np.ndarray):
        return obj.tolist()
    if isinstance(obj, (np.floating,)):
        return float(obj)
    if isinstance(obj, (np.integer,)):
        return int(obj)
    if isinstance(obj, (np.bool_,)):
        return bool(obj)
    if isinstance(obj, (set, frozenset)):
        return sorted(obj)
    raise TypeError(f"not JSON serialisable: {type(obj)!r}")


def jsonRoundTrip(obj: Any) -> Any:
    """Steps are always executed in their JSON form so that replay from a
    file runs exactly what the original run ran (floats survive repr)."""
    return json.loads(json.dumps(obj, default=_jsonDefault))


class RunResult:
    __slots__ = (
        "seedI", "cfg", "steps", "events", "digest", "violation", "stats",
        "nontrivial", "historyHash", "bigrams", "states", "knownHit", "nSkipped",
    )

    def toJson(self) -> dict:
        return {k: getattr(self, k) for k in (
            "seedI", "cfg", "steps", "events", "digest", "violation")}


def executeHistory(
    machineCls: type,
    cfg: dict,
    steps: list | None,
    seedI: int,
    knownKeys: frozenset = frozenset(),
    maxSteps: int | None = None,
) -> RunResult:
    """
    Run one history.  steps=None: generate online from seedI; otherwise replay
    the given list (generator not involved).
    """
    ctx = Ctx()
    cfg = jsonRoundTrip(cfg)
    res = RunResult()
    res.seedI = seedI
    res.cfg = cfg
    res.steps = []
    res.events = []
    res.violation = None
    res.knownHit = None
    res.nSkipped = 0
    res.bigrams = set()
    h = hashlib.sha256()
    h.update(f"{machineCls.PROP}:{ENGINE_VERSION}:{seedI}".encode())
    _feed(h, cfg)
    machine = None
    mutated = False
    observedAfterMutation = False
    prevOp = "^"
    try:
        try:
            machine = machineCls(cfg, ctx)
        except Violation as v:
            res.violation = {"key": v.key, "message": v.message, "step": -1,
                             "details": jsonRoundTrip(v.details)}
            _handleKnown(res, knownKeys)
        opRng = stream(seedI, "ops")
        limit = maxSteps if maxSteps is not None else machineCls.MAX_STEPS
        index = 0
        while res.violation is None and res.knownHit is None:
            if steps is None:
                if index >= limit:
                    break
                step = machine.nextStep(opRng, index)
                if step is None:
                    break
            else:
                if index >= len(steps):
                    break
                step = steps[index]
            step = jsonRoundTrip(step)
            res.steps.append(step)
            outcome = "ok"
            obs: Any = None
            try:
                obs = machine.execute(step)
            except Skip:
                outcome = "skip"
                res.nSkipped += 1
            except Violation as v:
                outcome = "violation:" + v.key
                res.violation = {"key": v.key, "message": v.message, "step": index,
                                 "details": jsonRoundTrip(v.details)}
            except (HarnessError, RunTimeout):
                raise
            except Exception as exc:  # pylint: disable=broad-except
                # An exception that left WallGo code at a place where the step
                # interpreter expects none: the API call did not deliver what the
                # property promises.  One that originates in harness code is ours.
                if not raisedInsideSystemUnderTest(exc):
                    raise
                key = f"unexpected-exception/{step.get('op', '?')}:{type(exc).__name__}"
                outcome = "violation:" + key
                res.violation = {
                    "key": key, "step": index, "details": None,
                    "message": f"{step.get('op')} made a WallGo call that raised "
                               f"{type(exc).__name__}: {str(exc)[:300]}"}
            d = digest(obs)
            res.events.append([index, step.get("op", "?"), outcome, d[:16]])
            h.update(f"{index}:{step.get('op')}:{outcome}:{d}".encode())
            op = step.get("op", "?")
            if outcome == "ok":
                res.bigrams.add(prevOp + ">" + op)
                prevOp = op
                if op in machineCls.MUTATORS:
                    mutated = True
                if op in machineCls.OBSERVERS and mutated:
                    observedAfterMutation = True
                ab = machine.abstraction()
                if ab is not None:
                    ctx.states.add(ab if isinstance(ab, str) else json.dumps(
                        ab, default=_jsonDefault))
            if res.violation is not None:
                _handleKnown(res, knownKeys)
            index += 1
    finally:
        try:
            if machine is not None:
                machine.close()
        finally:
            ctx.cleanup()
    res.digest = h.hexdigest()
    res.stats = {
        "faultFired": dict(ctx.faultFired),
        "probes": dict(ctx.probes),
        "checks": dict(ctx.checks),
        "maxima": dict(ctx.maxima),
    }
    res.states = ctx.states
    res.nontrivial = observedAfterMutation
    res.historyHash = _historyHash(cfg, res.steps)
    return res


def _handleKnown(res: RunResult, knownKeys: frozenset) -> None:
    """A violation whose key is a listed known finding ends the run (the
    object may be damaged) but is not a violation of the batch."""
    if res.violation is not None and res.violation["key"] in knownKeys:
        res.knownHit = res.violation
        res.violation = None


# --------------------------------------------------------------------------
# minimisation: ddmin over steps, then per-step / config simplification
# --------------------------------------------------------------------------
def minimise(
    machineCls: type,
    cfg: dict,
    steps: list,
    seedI: int,
    key: str,
    budget: int = 300,
    log: Callable[[str], None] = lambda s: None,
    runner: Callable | None = None,
) -> tuple[dict, list, bool, int]:
    """Shrink (cfg, steps) while the same violation key persists."""
    used = 0
    run = runner if runner is not None else (
        lambda c, s: executeHistory(machineCls, c, s, seedI))

    def fails(c: dict, s: list) -> bool:
        nonlocal used
        used += 1
        try:
            r = run(c, s)
        except Exception:  # harness trouble on a candidate: not the same failure
            return False
        return r.violation is not None and r.violation["key"] == key

    # cut everything after the failing step
    r0 = run(cfg, steps)
    used += 1
    if r0.violation is None or r0.violation["key"] != key:
        return cfg, steps, False, used
    steps = steps[: r0.violation["step"] + 1] if r0.violation["step"] >= 0 else []

    # ddmin
    n = 2
    while len(steps) >= 2 and used < budget:
        chunk = max(1, len(steps) // n)
        removed = False
        i = 0
        while i < len(steps) and used < budget:
            cand = steps[:i] + steps[i + chunk:]
            if cand and fails(cfg, cand):
                steps = cand
                n = max(n - 1, 2)
                removed = True
            else:
                i += chunk
        if not removed:
            if chunk == 1:
                break
            n = min(len(steps), n * 2)
    # one-by-one removal to reach 1-minimality
    changed = True
    while changed and used < budget:
        changed = False
        for i in range(len(steps) - 1, -1, -1):
            if len(steps) <= 1:
                break
            cand = steps[:i] + steps[i + 1:]
            if used < budget and fails(cfg, cand):
                steps = cand
                changed = True
    # simplify arguments and configuration
    probe = machineCls.__new__(machineCls)
    changed = True
    while changed and used < budget:
        changed = False
        for i in range(len(steps)):
            for simpler in probe.simplerSteps(steps[i]):
                if used >= budget:
                    break
                cand = steps[:i] + [jsonRoundTrip(simpler)] + steps[i + 1:]
                if cand != steps and fails(cfg, cand):
                    steps = cand
                    changed = True
                    break
        for simplerCfg in machineCls.simplerConfigs(cfg):
            if used >= budget:
                break
            simplerCfg = jsonRoundTrip(simplerCfg)
            if simplerCfg != cfg and fails(simplerCfg, steps):
                cfg = simplerCfg
                changed = True
                break
    converged = used < budget
    log(f"minimised to {len(steps)} steps with {used} replays (converged={converged})")
    return cfg, steps, converged, used


# --------------------------------------------------------------------------
# per-run time limit inside a worker (soft: exception; hard: faulthandler)
# --------------------------------------------------------------------------
class runTimeLimit:
    def __init__(self, seconds: float):
        self.seconds = seconds

    def _raise(self, signum: int, frame: Any) -> None:
        raise RunTimeout(f"run exceeded {self.seconds}s")

    def __enter__(self) -> "runTimeLimit":
        self.old = signal.signal(signal.SIGALRM, self._raise)
        signal.setitimer(signal.ITIMER_REAL, self.seconds)
        return self

    def __exit__(self, *exc: Any) -> None:
        signal.setitimer(signal.ITIMER_REAL, 0)
        signal.signal(signal.SIGALRM, self.old)


def runIsolated(fn: Callable, args: tuple, timeout: float) -> Any:
    """One simulated run = one OS process.  fn(*args) is executed in a forked
    child of the (pristine) calling process, so no state of the system under
    test -- module globals, class-level lists, caches -- can leak from one run
    into the next, and a hung run can be killed.  The result comes back pickled
    through a pipe."""
    rfd, wfd = os.pipe()
    pid = os.fork()
    if pid == 0:  # child
        code = 0
        try:
            os.close(rfd)
            try:
                payload: tuple = ("ok", fn(*args))
            except BaseException as exc:  # pylint: disable=broad-except
                payload = ("exc", type(exc).__name__, formatException(exc))
            with os.fdopen(wfd, "wb") as fh:
                fh.write(pickle.dumps(payload, protocol=pickle.HIGHEST_PROTOCOL))
        except BaseException:  # pylint: disable=broad-except
            code = 1
        finally:
            os._exit(code)
    os.close(wfd)
    chunks = []
    deadline = time.monotonic() + timeout
    timedOut = False
    try:
        while True:
            remaining = deadline - time.monotonic()
            if remaining <= 0:
                timedOut = True
                break
            ready, _, _ = select.select([rfd], [], [], min(remaining, 5.0))
            if not ready:
                continue
            data = os.read(rfd, 1 << 20)
            if not data:
                break
            chunks.append(data)
    finally:
        os.close(rfd)
        if timedOut:
            try:
                os.kill(pid, signal.SIGKILL)
            except ProcessLookupError:
                pass
        os.waitpid(pid, 0)
    if timedOut:
        raise RunTimeout(f"run exceeded {timeout}s and was killed")
    if not chunks:
        raise HarnessError("isolated run died without returning a result")
    payload = pickle.loads(b"".join(chunks))
    if payload[0] == "ok":
        return payload[1]
    if payload[1] == "RunTimeout":
        raise RunTimeout(payload[2])
    raise HarnessError(f"isolated run raised {payload[1]}:\n{payload[2]}")


def raisedInsideSystemUnderTest(exc: BaseException) -> bool:
    """True if, below the last harness frame of the traceback, there is a frame
    of the system under test (the repository's src tree)."""
    repoSrc = os.path.abspath(os.environ.get("WGSIM_REPO_SRC", "/repo/src")) + os.sep
    harness = os.path.join(VERIF_ROOT, "wgsim") + os.sep
    seenSut = False
    tb = exc.__traceback__
    while tb is not None:
        filename = os.path.abspath(tb.tb_frame.f_code.co_filename)
        if filename.startswith(harness):
            seenSut = False
        elif filename.startswith(repoSrc):
            seenSut = True
        tb = tb.tb_next
    return seenSut


def formatException(exc: BaseException) -> str:
    return "".join(traceback.format_exception(type(exc), exc, exc.__traceback__))
