"""
C14 -- collision data: two parties over one directory.  The WRITER (stub for
WallGoCollision's writeToIndividualHDF5: one HDF5 file per ordered particle
pair, written one at a time, may stop midway, may start a new generation with
another size/basis over the old one) and the LOADER (real
CollisionArray.newFromDirectory / BoltzmannSolver.loadCollisions / changeBasis /
interpolateCollisionArray) share a real scratch directory behind an h5py proxy
that injects open errors and lets the writer advance between the loader's
opens.  Reference model: dict of what is durably stored per pair; independent
numpy implementation of the restricted Chebyshev / cardinal bases to compare
operator ACTIONS (exhaustively over distributions, by linearity).
DESIGN.md section 3, C14.
"""

from __future__ import annotations

import errno
import hashlib
import os
import pathlib
import random
import warnings
from typing import Any

import numpy as np
from numpy.polynomial import chebyshev as npcheb

from .core import Machine, Violation, Skip, HarnessError, Ctx

BASES = ("Chebyshev", "Cardinal")
SIZES = (3, 5, 7, 9, 11)
#: particle names are free strings: plain ones, names that are prefixes of each
#: other, names with a dot (the file name convention just embeds them)
NAME_SETS = (("top", "gluon", "W"), ("psi", "psiL", "psiLR"), ("t.L", "t.R", "W.T"),
             ("top", "gluon", "W"))
NAMES = NAME_SETS[0]

# --------------------------------------------------------------------------
# independent bases (numpy.polynomial only; nothing from WallGo.Polynomial)
# --------------------------------------------------------------------------
_CACHE: dict = {}


def nodes(N: int) -> tuple[np.ndarray, np.ndarray]:
    rz = -np.cos(np.arange(1, N) * np.pi / N)            # pz: interior points
    rp = -np.cos(np.arange(0, N - 1) * np.pi / (N - 1))  # pp: -1 included, +1 excluded
    return rz, rp


def _cheb(n: int, x: np.ndarray) -> np.ndarray:
    return npcheb.chebval(x, [0] * n + [1])


def matZ(N: int, x: np.ndarray | None = None) -> np.ndarray:
    """restricted basis in pz: Tbar_j = T_j - (1 | x), j = 2..N, at points x"""
    key = ("z", N, None if x is None else x.tobytes())
    if key not in _CACHE:
        pts = nodes(N)[0] if x is None else x
        _CACHE[key] = np.array([[_cheb(j, xi) - (1.0 if j % 2 == 0 else xi)
                                 for j in range(2, N + 1)] for xi in pts])
    return _CACHE[key]


def matP(N: int, x: np.ndarray | None = None) -> np.ndarray:
    """restricted basis in pp: Ttilde_k = T_k - 1, k = 1..N-1, at points x"""
    key = ("p", N, None if x is None else x.tobytes())
    if key not in _CACHE:
        pts = nodes(N)[1] if x is None else x
        _CACHE[key] = np.array([[_cheb(k, xi) - 1.0 for k in range(1, N)] for xi in pts])
    return _CACHE[key]


def cardinalOperator(block: np.ndarray, basis: str, N: int) -> np.ndarray:
    """Op[a,b,a',b']: result at grid point (a,b) of applying the collision block to
    the distribution that is 1 at grid point (a',b') and 0 at the others"""
    if basis == "Cardinal":
        return block
    return np.einsum("abjk,jc,kd->abcd", block, np.linalg.inv(matZ(N)),
                     np.linalg.inv(matP(N)), optimize=True)


def expectedInterpolated(stored: np.ndarray, basisF: str, NF: int, NT: int) -> np.ndarray:
    """E[aS,bS,j',k']: the stored operator applied to the (j',k') element of the
    SMALL restricted Chebyshev basis, evaluated at the small grid's points"""
    opL = cardinalOperator(stored, basisF, NF)
    rzL, rpL = nodes(NF)
    rzS, rpS = nodes(NT)
    interpZ = matZ(NF, rzS) @ np.linalg.inv(matZ(NF))
    interpP = matP(NF, rpS) @ np.linalg.inv(matP(NF))
    inZ = matZ(NT, rzL)
    inP = matP(NT, rpL)
    return np.einsum("ea,fb,abcd,cj,dk->efjk", interpZ, interpP, opL, inZ, inP, optimize=True)


def smallChebForm(block: np.ndarray, basis: str, N: int) -> np.ndarray:
    """the loaded block as action on the restricted Chebyshev basis of its own grid"""
    if basis == "Chebyshev":
        return block
    return np.einsum("abcd,cj,dk->abjk", block, matZ(N), matP(N), optimize=True)


def pairArray(gen: int, a: str, b: str, N: int, seedI: int) -> np.ndarray:
    h = hashlib.sha256(f"{seedI}:{gen}:{a}:{b}:{N}".encode()).digest()
    rng = np.random.default_rng(int.from_bytes(h[:8], "little"))
    return rng.normal(size=(N - 1,) * 4)


# --------------------------------------------------------------------------
# h5py seam
# --------------------------------------------------------------------------
class _H5Proxy:
    def __init__(self, real: Any, machine: "CollisionMachine"):
        object.__setattr__(self, "_real", real)
        object.__setattr__(self, "_machine", machine)

    def __getattr__(self, name: str) -> Any:
        return getattr(object.__getattribute__(self, "_real"), name)

    def File(self, name: Any, mode: str = "r", *args: Any, **kwargs: Any) -> Any:  # noqa: N802
        real = object.__getattribute__(self, "_real")
        machine = object.__getattribute__(self, "_machine")
        machine.onLoaderOpen(str(name))
        return real.File(name, mode, *args, **kwargs)


class CollisionMachine(Machine):
    PROP = "C14"
    MAX_STEPS = 12
    MUTATORS = frozenset({"write_generation", "writer_step", "writer_finish", "tear", "unlink",
                          "lfs_pointer", "load_solver", "change_basis", "new_solver",
                          "update_particles", "regrid", "poly"})
    OBSERVERS = frozenset({"load_solver", "load_direct", "change_basis", "interpolate"})
    RULE = (
        "one history = one scratch collision directory + one BoltzmannSolver; up to 12 steps "
        "from {write_generation(N, basis) / writer_step(k) / writer_finish (stub writer, one "
        "HDF5 file per ordered pair in seeded order), tear(pair), unlink(pair), "
        "lfs_pointer(pair), arm_eio(k), arm_interleave(j, m), load_solver, "
        "load_direct(N, basis, bInterpolate), change_basis, interpolate(N), new_solver}. "
        "Every load is classified from the model of what is durably stored: complete / "
        "missing / oversized / size-mismatch (strict: exact numbers or CollisionLoadError, "
        "previous array left in place) or torn / pointer / EIO / interleaved writer / mixed "
        "basis (relaxed: any exception, never wrong data). Loaded operators are compared "
        "with the stored ones as full linear maps (all unit distributions), so by linearity "
        "for every distribution. distinct = sha256 of (config, steps); non-trivial = a "
        "directory-mutating step followed by a checked load/basis change/interpolation."
    )
    ABSTRACTION = ("(P, target-vs-file size class, stored basis, requested basis, directory "
                   "class, previous array present)")
    COMPONENTS_REAL = ["WallGo.CollisionArray", "WallGo.Polynomial", "WallGo.Grid / Grid3Scales",
                       "WallGo.BoltzmannSolver.loadCollisions", "h5py", "the file system "
                       "(scratch directory)"]
    COMPONENTS_STUB = ["collision generator WallGoCollision (not installed): stub writer "
                       "producing its on-disk format", "h5py.File proxy (fault injection, "
                       "interleaving the writer)"]
    ASSUMPTIONS = [
        "P in 1..3, stored sizes N in {3,5,7,9,11}, random normal collision tensors",
        "the harness's restricted Chebyshev bases (numpy.polynomial) define what 'action' "
        "means; validated against the unchanged code to 1e-15 for same-size loads and "
        "single-particle interpolation before any claim was made",
        "h5py itself is trusted: a torn/pointer file is expected to fail to open",
    ]
    REQUIRED_REACH = {
        "quick": {"faultFired": ["missing_file", "mixed_size", "oversized_target", "torn_file",
                                 "lfs_pointer", "eio_on_open", "writer_interleaved"],
                  "probes": ["load_ok_same_size", "load_ok_interpolated", "load_ok_P>1_interpolated",
                             "previous_array_kept", "basis_changed", "interpolate_op",
                             "particle_list_changed", "solver_regridded",
                             "interleaved_plain_basis_change"]},
    }
    REQUIRED_REACH["thorough"] = REQUIRED_REACH["quick"]
    OPS = ("write_generation", "writer_step", "writer_finish", "tear", "unlink", "lfs_pointer",
           "arm_eio", "arm_interleave", "load_solver", "load_direct", "change_basis",
           "interpolate", "new_solver", "update_particles", "regrid", "poly")
    POSSIBLE_BIGRAMS = len(OPS) * (len(OPS) + 1)

    # ------------------------------------------------------------------ config
    @staticmethod
    def drawConfig(rng: random.Random, tier: str) -> dict:
        P = rng.choice([1, 2, 2, 3])
        weights = {op: rng.choice([0, 1, 2]) for op in CollisionMachine.OPS}
        weights["load_solver"] = rng.choice([2, 3])
        weights["load_direct"] = rng.choice([1, 2])
        weights["write_generation"] = rng.choice([1, 2])
        weights["writer_finish"] = rng.choice([1, 2, 3])
        return {
            "P": P, "names": list(rng.choice(NAME_SETS)[:P]),
            "M": rng.choice([3, 4, 6]),
            "grid": rng.choice(["Grid", "Grid3Scales"]),
            "T": rng.choice([1.0, 0.37, 50.0]),
            "solverN": rng.choice(SIZES), "solverBasis": rng.choice(BASES),
            "maxN": rng.choice([7, 9, 11]),
            "weights": weights,
            "faulty": rng.random() < 0.67,
        }

    @staticmethod
    def simplerConfigs(cfg: dict):
        if cfg["grid"] != "Grid":
            yield dict(cfg, grid="Grid")
        if cfg["M"] != 3:
            yield dict(cfg, M=3)
        if cfg["T"] != 1.0:
            yield dict(cfg, T=1.0)

    # ------------------------------------------------------------------ set-up
    def __init__(self, cfg: dict, ctx: Ctx):
        super().__init__(cfg, ctx)
        import WallGo  # pylint: disable=import-outside-toplevel
        import WallGo.collisionArray as mod  # pylint: disable=import-outside-toplevel
        import h5py  # pylint: disable=import-outside-toplevel
        self.WallGo = WallGo
        self.mod = mod
        self.h5py = h5py
        self._realH5 = mod.h5py
        if isinstance(self._realH5, _H5Proxy):
            self._realH5 = object.__getattribute__(self._realH5, "_real")
        mod.h5py = _H5Proxy(self._realH5, self)
        self.names = list(cfg["names"])
        self.particles = [WallGo.Particle(n, i, lambda f: 0.0, lambda f: 0.0, "Fermion", 1)
                          for i, n in enumerate(self.names)]
        self.dir = pathlib.Path(ctx.scratch()) / "collisions"
        self.dir.mkdir(parents=True, exist_ok=True)
        self.pairs = [(a, b) for a in self.names for b in self.names]
        # model of the directory: pair -> entry
        self.disk: dict = {}
        self.queue: list = []
        self.gen = 0
        self.seedBase = 0
        self.armedEio: int | None = None
        self.armedInterleave: tuple | None = None
        self.loaderOpens = 0
        self.inLoad = False
        self.interleaved = False
        self.eioFired = False
        self.overwrittenDuringLoad: dict = {}
        self.solverNames = list(self.names)
        self.solver = self._newSolver(cfg["solverN"], cfg["solverBasis"])
        self.solverN = cfg["solverN"]
        self.solverBasis = cfg["solverBasis"]
        # what the solver's installed array was built from
        self.installed: dict | None = None
        self.returned: list = []

    def _grid(self, N: int, T: float | None = None) -> Any:
        c = self.cfg
        T = c["T"] if T is None else T
        if c["grid"] == "Grid":
            return self.WallGo.Grid(c["M"], N, 1.3, T)
        return self.WallGo.Grid3Scales(c["M"], N, 3.0, 4.0, 1.3, T, 0.5, 0.1, 0.2)

    def _newSolver(self, N: int, basis: str) -> Any:
        solver = self.WallGo.BoltzmannSolver(self._grid(N), "Cardinal", basis, "Spectral")
        solver.updateParticleList(self.particles)
        return solver

    def close(self) -> None:
        self.mod.h5py = self._realH5

    def _path(self, pair: tuple) -> pathlib.Path:
        return self.dir / f"collisions_{pair[0]}_{pair[1]}.hdf5"

    # ------------------------------------------------------------------ writer (stub)
    def _writeFile(self, item: dict) -> None:
        pair = (item["a"], item["b"])
        arr = pairArray(item["gen"], item["a"], item["b"], item["N"], self.seedBase)
        if item.get("scale", 1.0) != 1.0:
            # a feebly coupled species next to a strongly coupled one
            arr = arr * float(item["scale"])
            self.ctx.probes["pair_with_very_different_magnitude"] += 1
        if item.get("dtype", "float64") != "float64":
            # a legal but unusual file: single precision (what is stored is then
            # the rounded numbers, and those are what must come back)
            arr = arr.astype(item["dtype"])
            self.ctx.probes["file_with_other_dtype"] += 1
        path = self._path(pair)
        with self.h5py.File(str(path), "w") as fh:
            meta = fh.create_group("metadata")
            # the generator is C++: the integer type of the attribute is whatever its
            # HDF5 layer chose, so every integer type is a legal file
            sizeType = {"int": int, "int32": np.int32, "uint32": np.uint32,
                        "uint64": np.uint64}[item.get("sizeType", "int")]
            meta.attrs["Basis Size"] = sizeType(item["N"])
            meta.attrs["Basis Type"] = np.bytes_(item["basis"])
            fh.create_dataset(f"{item['a']}, {item['b']}", data=arr)
        old = self.disk.get(pair)
        if self.inLoad:
            self.overwrittenDuringLoad.setdefault(pair, old)
        self.disk[pair] = {"state": "ok", "gen": item["gen"], "N": item["N"],
                           "basis": item["basis"], "arr": np.asarray(arr, dtype=np.float64)}

    def _advanceWriter(self, k: int) -> int:
        done = 0
        while self.queue and done < k:
            self._writeFile(self.queue.pop(0))
            done += 1
        return done

    def onLoaderOpen(self, name: str) -> None:
        """called by the h5py proxy before every open made by WallGo"""
        if not self.inLoad:
            return
        self.loaderOpens += 1
        if self.armedInterleave is not None and self.loaderOpens == self.armedInterleave[0]:
            moved = self._advanceWriter(self.armedInterleave[1])
            self.armedInterleave = None
            if moved:
                self.interleaved = True
                self.ctx.faultFired["writer_interleaved"] += 1
        if self.armedEio is not None and self.loaderOpens == self.armedEio:
            self.armedEio = None
            self.eioFired = True
            self.ctx.faultFired["eio_on_open"] += 1
            raise OSError(errno.EIO, "injected: Input/output error", name)

    # ------------------------------------------------------------------ generator
    def nextStep(self, rng: random.Random, index: int) -> dict | None:
        cfg = self.cfg
        if index == 0:
            op = "write_generation"
        elif index == 1 and rng.random() < 0.7:
            op = "writer_finish"
        else:
            ops: list = []
            for name in self.OPS:
                if not cfg["faulty"] and name in ("tear", "unlink", "lfs_pointer", "arm_eio",
                                                  "arm_interleave"):
                    continue
                ops += [name] * cfg["weights"][name]
            op = rng.choice(ops)
            # bias towards the interesting moments: a half-written second
            # generation is loaded; an installed array is transformed
            if self.queue and len(self.disk) == len(self.pairs) and rng.random() < 0.4:
                op = rng.choice(["writer_step", "load_solver", "load_solver", "load_direct"])
            if op in ("change_basis", "interpolate") and self.installed is None:
                op = "load_solver"
        sizes = [n for n in SIZES if n <= cfg["maxN"]]
        if op == "write_generation":
            order = list(range(len(self.pairs)))
            rng.shuffle(order)
            usable = [n for n in sizes if n >= self.solverN]
            N = rng.choice(usable) if usable and rng.random() < 0.75 else rng.choice(sizes)
            step = {"op": op, "N": N, "basis": rng.choice(BASES), "order": order}
            if rng.random() < 0.25:
                step["dtypes"] = [rng.choice(["float64", "float64", "float32"])
                                  for _ in self.pairs]
            if rng.random() < 0.3:
                step["sizeType"] = rng.choice(["int32", "uint32", "uint64"])
            if rng.random() < 0.2:
                step["scales"] = [rng.choice([1.0, 1.0, 1e-8, 1e8, 1e-16]) for _ in self.pairs]
            return step
        if op == "writer_step":
            return {"op": op, "k": rng.choice([1, 1, 2, 4])}
        if op in ("writer_finish", "load_solver"):
            return {"op": op}
        if op in ("tear", "unlink", "lfs_pointer"):
            step = {"op": op, "pair": rng.randrange(len(self.pairs))}
            if op == "tear":
                step["frac"] = rng.choice([0.0, 0.1, 0.5, 0.9, 0.99])
            return step
        if op == "arm_eio":
            return {"op": op, "k": rng.randint(1, len(self.pairs))}
        if op == "arm_interleave":
            return {"op": op, "j": rng.randint(1, len(self.pairs)),
                    "m": rng.choice([1, 2, len(self.pairs)])}
        if op == "load_direct":
            return {"op": op, "N": rng.choice(SIZES), "basis": rng.choice(BASES),
                    "interp": rng.random() < 0.8,
                    "subset": rng.random() < 0.2}
        if op == "change_basis":
            return {"op": op, "basis": rng.choice(BASES)}
        if op == "interpolate":
            smaller = [n for n in SIZES if self.installed and n < self.installed["N"]]
            # the collision array lives in compact momentum coordinates: the target
            # grid's momentum scale must not matter
            return {"op": op, "N": rng.choice(smaller or SIZES),
                    "T": rng.choice([None, None, 0.5, 1.2, 120.0])}
        if op == "new_solver":
            return {"op": op, "N": rng.choice(SIZES), "basis": rng.choice(BASES)}
        if op == "update_particles":
            k = rng.randint(1, len(self.names))
            return {"op": op, "subset": sorted(rng.sample(range(len(self.names)), k))}
        if op == "regrid":
            return {"op": op, "N": rng.choice(SIZES)}
        if op == "poly":
            return {"op": op, "N": rng.choice([self.solverN, rng.choice(SIZES)]),
                    "src": rng.choice(BASES), "dst": rng.choice(BASES),
                    "seed": rng.randrange(1000)}
        raise HarnessError(op)

    def simplerSteps(self, step: dict):
        if step["op"] == "write_generation":
            if step["order"] != sorted(step["order"]):
                yield dict(step, order=sorted(step["order"]))
            if step["N"] > 3:
                yield dict(step, N=3)
                yield dict(step, N=5)
        if step["op"] in ("load_direct", "new_solver", "interpolate") and step["N"] > 3:
            yield dict(step, N=3)
        if step["op"] == "load_direct" and step.get("subset"):
            yield dict(step, subset=False)

    # ------------------------------------------------------------------ interpreter
    def execute(self, step: dict) -> Any:
        handler = getattr(self, "_op_" + step["op"], None)
        if handler is None:
            raise HarnessError(f"unknown op {step['op']}")
        with warnings.catch_warnings():
            warnings.simplefilter("ignore")
            obs = handler(step)
            self._checkReturnedArrays(step["op"])
            return obs

    def _checkReturnedArrays(self, laterOp: str) -> None:
        """an array a load returned to the caller earlier must not change when
        later loads / basis changes of OTHER arrays happen"""
        for arr, was in self.returned:
            self.ctx.checks["earlier_array_unchanged"] += 1
            if self._contentDigest(arr) != was:
                self.returned = []
                raise Violation("installed-array", "returned-array-changed-by-later-operation",
                                f"a CollisionArray returned by an earlier load changed during a "
                                f"later {laterOp}: it shares memory with another array or buffer")

    def _op_write_generation(self, step: dict) -> Any:
        if sorted(step["order"]) != list(range(len(self.pairs))):
            raise Skip()
        if self.queue:
            self.ctx.probes["generation_abandoned_midway"] += 1
        self.gen += 1
        dtypes = step.get("dtypes") or ["float64"] * len(self.pairs)
        self.queue = [{"a": self.pairs[i][0], "b": self.pairs[i][1], "N": int(step["N"]),
                       "basis": step["basis"], "gen": self.gen,
                       "dtype": dtypes[i] if i < len(dtypes) else "float64",
                       "sizeType": step.get("sizeType", "int"),
                       "scale": (step.get("scales") or [1.0] * len(self.pairs))[i]
                       if i < len(step.get("scales") or [1.0] * len(self.pairs)) else 1.0}
                      for i in step["order"]]
        return ["generation", self.gen]

    def _op_writer_step(self, step: dict) -> Any:
        return ["wrote", self._advanceWriter(int(step["k"]))]

    def _op_writer_finish(self, step: dict) -> Any:
        return ["wrote", self._advanceWriter(len(self.queue))]

    def _pair(self, step: dict) -> tuple:
        if step["pair"] >= len(self.pairs):
            raise Skip()
        return self.pairs[step["pair"]]

    def _op_unlink(self, step: dict) -> Any:
        pair = self._pair(step)
        path = self._path(pair)
        if path.exists():
            path.unlink()
        self.disk.pop(pair, None)
        return ["unlinked"]

    def _op_tear(self, step: dict) -> Any:
        pair = self._pair(step)
        entry = self.disk.get(pair)
        if entry is None or entry["state"] != "ok":
            raise Skip()
        path = self._path(pair)
        size = path.stat().st_size
        with open(path, "r+b") as fh:
            fh.truncate(int(size * float(step["frac"])))
        self.disk[pair] = dict(entry, state="torn")
        return ["torn", int(size * float(step["frac"]))]

    def _op_lfs_pointer(self, step: dict) -> Any:
        pair = self._pair(step)
        self._path(pair).write_text(
            "version https://git-lfs.github.com/spec/v1\n"
            "oid sha256:4d7a214614ab2935c943f9e0ff69d22eadbb8f32b1258daaa5e2ca24d17e2393\n"
            "size 12345\n")
        self.disk[pair] = {"state": "pointer"}
        return ["pointer"]

    def _op_arm_eio(self, step: dict) -> Any:
        self.armedEio = int(step["k"])
        return ["armed-eio", self.armedEio]

    def _op_arm_interleave(self, step: dict) -> Any:
        self.armedInterleave = (int(step["j"]), int(step["m"]))
        return ["armed-interleave"]

    def _op_new_solver(self, step: dict) -> Any:
        self.solver = self._newSolver(int(step["N"]), step["basis"])
        self.solverN, self.solverBasis = int(step["N"]), step["basis"]
        self.solverNames = list(self.names)
        self.installed = None
        return ["new-solver"]

    def _op_update_particles(self, step: dict) -> Any:
        """public setter of the solver's particle list; an installed array stays"""
        subset = [i for i in step["subset"] if i < len(self.names)]
        if not subset:
            raise Skip()
        self.solverNames = [self.names[i] for i in subset]
        self.solver.updateParticleList([self.particles[i] for i in subset])
        self.ctx.probes["particle_list_changed"] += 1
        return ["particles", self.solverNames]

    def _op_regrid(self, step: dict) -> Any:
        """the solver's public grid attribute is replaced (what a user does to
        change the momentum grid size); an installed array stays"""
        self.solver.grid = self._grid(int(step["N"]))
        self.solverN = int(step["N"])
        self.ctx.probes["solver_regridded"] += 1
        return ["regrid", self.solverN]

    def _op_poly(self, step: dict) -> Any:
        """an unrelated plain basis change of a distribution-like polynomial on the
        same kind of grid, exactly what BoltzmannSolver.getDeltas does between
        collision operations (interleaved library call)"""
        N = int(step["N"])
        # on the solver's own grid OBJECT when the size matches (getDeltas uses
        # self.grid, the very object the collision array lives on)
        grid = self.solver.grid if N == self.solverN else self._grid(N)
        rng = np.random.default_rng(int(step["seed"]))
        coeffs = rng.normal(size=(1, self.cfg["M"] - 1, N - 1, N - 1))
        poly = self.WallGo.Polynomial(coeffs, grid, ("Array", "Cardinal", step["src"], step["src"]),
                                      ("Array", "z", "pz", "pp"), False)
        poly.changeBasis(("Array", "Cardinal", step["dst"], step["dst"]))
        self.ctx.probes["interleaved_plain_basis_change"] += 1
        return ["poly", np.asarray(poly.coefficients)]

    # -- classification of the directory for a load of `names`
    def _classify(self, names: list, NT: int, interp: bool) -> tuple[str, str]:
        """(strength, class)"""
        entries = [self.disk.get((a, b)) for a in names for b in names]
        if any(e is not None and e["state"] in ("torn", "pointer") for e in entries):
            kinds = {e["state"] for e in entries if e is not None}
            return "relaxed", "torn" if "torn" in kinds else "pointer"
        if any(e is None for e in entries):
            return "strict-fail", "missing"
        if len({e["basis"] for e in entries}) > 1:
            return "relaxed", "mixed-basis"
        sizes = {e["N"] for e in entries}
        if len(sizes) > 1:
            return "strict-fail", "mixed-size"
        NF = sizes.pop()
        if NT > NF:
            return "strict-fail", "oversized"
        if NT < NF and not interp:
            return "strict-fail", "no-interpolation"
        return "strict-ok", "complete"

    def _contentDigest(self, arr: Any) -> str | None:
        if arr is None:
            return None
        data = np.asarray(arr[...])
        return hashlib.sha256(data.tobytes() + str(data.shape).encode()
                              + arr.getBasisType().encode()).hexdigest()

    def _load(self, fn: Any) -> tuple[str, Any]:
        self.inLoad = True
        self.loaderOpens = 0
        self.interleaved = False
        self.eioFired = False
        self.overwrittenDuringLoad = {}
        try:
            return "ok", fn()
        except self.WallGo.CollisionLoadError as exc:
            return "CollisionLoadError", exc
        except Exception as exc:  # pylint: disable=broad-except
            return type(exc).__name__, exc
        finally:
            self.inLoad = False
            self.armedEio = None
            self.armedInterleave = None

    def _op_load_solver(self, step: dict) -> Any:
        before = self.solver.collisionArray
        beforeDigest = self._contentDigest(before)
        strength, cls = self._classify(self.solverNames, self.solverN, True)
        snapshot = {p: self.disk.get(p) for p in self.pairs}
        status, res = self._load(lambda: self.solver.loadCollisions(self.dir))
        return self._judgeLoad("load_solver", status, res, strength, cls, snapshot,
                               self.solverNames, self.solverN, self.solverBasis, before,
                               beforeDigest, True)

    def _op_load_direct(self, step: dict) -> Any:
        names = self.names[:1] if step.get("subset") and len(self.names) > 1 else self.names
        parts = [p for p in self.particles if p.name in names]
        NT, basis, interp = int(step["N"]), step["basis"], bool(step["interp"])
        strength, cls = self._classify(names, NT, interp)
        snapshot = {p: self.disk.get(p) for p in self.pairs}
        before = self.solver.collisionArray
        beforeDigest = self._contentDigest(before)
        status, res = self._load(lambda: self.WallGo.CollisionArray.newFromDirectory(
            self.dir, self._grid(NT), basis, parts, interp))
        return self._judgeLoad("load_direct", status, res, strength, cls, snapshot, names, NT,
                               basis, before, beforeDigest, False)

    def _judgeLoad(self, what: str, status: str, res: Any, strength: str, cls: str,
                   snapshot: dict, names: list, NT: int, basis: str, before: Any,
                   beforeDigest: str | None, intoSolver: bool) -> Any:
        ctx = self.ctx
        ctx.checks[what] += 1
        if self.interleaved or self.eioFired:
            strength = "relaxed"
            cls = "interleaved" if self.interleaved else "eio"
        faultName = {"missing": "missing_file", "mixed-size": "mixed_size",
                     "oversized": "oversized_target", "torn": "torn_file",
                     "pointer": "lfs_pointer", "mixed-basis": "mixed_basis",
                     "no-interpolation": "size_mismatch_no_interpolation"}.get(cls)
        if faultName:
            ctx.faultFired[faultName] += 1
        self._lastClass = cls
        after = self.solver.collisionArray
        # ---- failure: previous array stays in place, untouched
        if status != "ok":
            if after is not before or self._contentDigest(after) != beforeDigest:
                raise Violation(
                    "installed-array", f"replaced-or-modified-on-failed-load:{cls}",
                    f"{what} failed with {status} on a {cls} directory but the solver's "
                    "collisionArray is no longer the previously installed, unmodified object")
            if before is not None:
                ctx.probes["previous_array_kept"] += 1
            if strength == "strict-ok":
                raise Violation(
                    "load-raised", f"{status}:complete",
                    f"{what} of a complete, consistent directory (P={len(names)}, target N="
                    f"{NT}) raised {status}: {res}")
            if strength == "strict-fail" and status != "CollisionLoadError":
                raise Violation(
                    "load-error-type", f"{cls}:{status}",
                    f"{what} on a directory with {cls} raised {status} instead of "
                    f"CollisionLoadError: {str(res)[:200]}")
            ctx.probes[f"load_failed_{cls}"] += 1
            return [what, status, cls]
        # ---- success
        if strength == "strict-fail":
            raise Violation("load-accepted", cls,
                            f"{what} returned normally on a directory with {cls}")
        arr = self.solver.collisionArray if intoSolver else res
        if intoSolver and (arr is None or arr is before):
            raise Violation("installed-array", "not-installed-after-successful-load",
                            "loadCollisions returned but no new array is installed")
        if arr.getBasisType() != basis:
            raise Violation("loaded-basis", f"{arr.getBasisType()}-instead-of-{basis}",
                            f"loaded array reports basis {arr.getBasisType()}, requested {basis}")
        data = np.asarray(arr[...])
        P = len(names)
        if data.shape != (P, NT - 1, NT - 1, P, NT - 1, NT - 1):
            raise Violation("loaded-shape", f"P={P}",
                            f"loaded array has shape {data.shape}, expected "
                            f"{(P, NT - 1, NT - 1, P, NT - 1, NT - 1)}")
        sources = {}
        for i, a in enumerate(names):
            for j, b in enumerate(names):
                block = data[i, :, :, j, :, :]
                cands = [snapshot.get((a, b))]
                if strength == "relaxed":
                    cands.append(self.disk.get((a, b)))
                    if (a, b) in self.overwrittenDuringLoad:
                        cands.append(self.overwrittenDuringLoad[(a, b)])
                cands = [c for c in cands if c is not None and c.get("state") == "ok"]
                if not cands:
                    if strength == "relaxed":
                        ctx.probes["relaxed_pair_unjudged"] += 1
                        continue
                    raise HarnessError("no candidate for a strict load")
                if cls == "mixed-basis":
                    ctx.probes["mixed_basis_load_returned_unjudged"] += 1
                    continue
                ok = False
                worst = ""
                for cand in cands:
                    good, msg = self._blockMatches(block, basis, NT, cand)
                    ok |= good
                    worst = worst or msg
                    if good:
                        sources[(a, b)] = cand
                        break
                if not ok:
                    raise Violation(
                        "loaded-numbers",
                        f"P={min(P, 2)}:{self._sizeClass(NT, cands[0]['N'])}:"
                        f"{cands[0]['basis']}->{basis}:{'diag' if a == b else 'offdiag'}"
                        + (":relaxed" if strength == "relaxed" else ""),
                        f"{what}: block ({a},{b}) of the loaded array (P={P}, stored N="
                        f"{cands[0]['N']} {cands[0]['basis']}, target N={NT} {basis}) does not "
                        f"act like the stored operator: {worst}")
        NF = next(iter(sources.values()))["N"] if sources else NT
        if strength == "strict-ok":
            if NF == NT:
                ctx.probes["load_ok_same_size"] += 1
            else:
                ctx.probes["load_ok_interpolated"] += 1
                if P > 1:
                    ctx.probes["load_ok_P>1_interpolated"] += 1
        else:
            ctx.probes[f"relaxed_load_returned_{cls}"] += 1
        if intoSolver:
            self.installed = {"sources": sources, "N": NT, "basis": basis, "names": list(names)}
        elif strength == "strict-ok":
            self.returned = (self.returned + [(arr, self._contentDigest(arr))])[-2:]
        return [what, "ok", cls, data]

    def _sizeClass(self, NT: int, NF: int) -> str:
        return "same" if NT == NF else ("smaller" if NT < NF else "larger")

    def _blockMatches(self, block: np.ndarray, basis: str, NT: int, cand: dict) -> tuple[bool, str]:
        NF, basisF, stored = cand["N"], cand["basis"], cand["arr"]
        if NF == NT and basisF == basis:
            self.ctx.checks["exact_numbers"] += 1
            same = block.shape == stored.shape and np.array_equal(block, stored)
            return same, "" if same else (
                f"same size and basis, but the numbers differ (max abs "
                f"{float(np.max(np.abs(block - stored))) if block.shape == stored.shape else 'shape'})")
        if NF == NT:
            self.ctx.checks["action_same_size"] += 1
            got = cardinalOperator(block, basis, NT)
            want = cardinalOperator(stored, basisF, NF)
        elif NT < NF:
            self.ctx.checks["action_interpolated"] += 1
            got = smallChebForm(block, basis, NT)
            want = expectedInterpolated(stored, basisF, NF, NT)
        else:
            return False, "target larger than stored"
        scale = float(np.max(np.abs(want))) + 1e-300
        err = float(np.max(np.abs(got - want))) / scale
        if err <= 1e-10:
            self.ctx.margin("action", err / 1e-10)
        return err <= 1e-10, f"relative deviation of the operator action {err:.3e}"

    def _op_change_basis(self, step: dict) -> Any:
        arr = self.solver.collisionArray
        if arr is None or self.installed is None:
            raise Skip()
        newBasis = step["basis"]
        try:
            ret = arr.changeBasis(newBasis)
        except Exception as exc:  # pylint: disable=broad-except
            raise Violation("change-basis-raised", type(exc).__name__,
                            f"changeBasis({newBasis}) raised {type(exc).__name__}: {exc}") from exc
        self.ctx.checks["change_basis"] += 1
        if ret.getBasisType() != newBasis:
            raise Violation("loaded-basis", "changeBasis-did-not-switch",
                            f"after changeBasis({newBasis}) the array reports {ret.getBasisType()}")
        if self.installed["basis"] != newBasis:
            self.ctx.probes["basis_changed"] += 1
        self.installed["basis"] = newBasis
        self._checkInstalled(np.asarray(ret[...]), newBasis, "changeBasis")
        return ["change_basis", np.asarray(ret[...])]

    def _checkInstalled(self, data: np.ndarray, basis: str, what: str) -> None:
        inst = self.installed
        names = inst["names"]
        for i, a in enumerate(names):
            for j, b in enumerate(names):
                cand = inst["sources"].get((a, b))
                if cand is None:
                    continue
                # compare through the action only (numbers need not be bitwise after
                # a round trip of basis changes)
                NT = inst["N"]
                block = data[i, :, :, j, :, :]
                if cand["N"] == NT:
                    got = cardinalOperator(block, basis, NT)
                    want = cardinalOperator(cand["arr"], cand["basis"], NT)
                else:
                    got = smallChebForm(block, basis, NT)
                    want = expectedInterpolated(cand["arr"], cand["basis"], cand["N"], NT)
                scale = float(np.max(np.abs(want))) + 1e-300
                err = float(np.max(np.abs(got - want))) / scale
                self.ctx.margin("action_after_" + what, err / 1e-10)
                if not err <= 1e-10:
                    raise Violation(
                        "basis-change-action", f"{what}:P={min(len(names), 2)}",
                        f"after {what} to {basis} block ({a},{b}) no longer acts like the "
                        f"stored operator (relative deviation {err:.3e})")

    def _op_interpolate(self, step: dict) -> Any:
        arr = self.solver.collisionArray
        if arr is None or self.installed is None:
            raise Skip()
        NS = int(step["N"])
        if NS >= self.installed["N"]:
            raise Skip()  # the property speaks of a SMALLER grid only
        digestBefore = self._contentDigest(arr)
        try:
            small = self.WallGo.CollisionArray.interpolateCollisionArray(
                arr, self._grid(NS, step.get("T")))
            if step.get("T") is not None:
                self.ctx.probes["interpolate_to_other_momentum_scale"] += 1
        except Exception as exc:  # pylint: disable=broad-except
            raise Violation("interpolate-raised", type(exc).__name__,
                            f"interpolateCollisionArray to N={NS} raised "
                            f"{type(exc).__name__}: {exc}") from exc
        self.ctx.checks["interpolate"] += 1
        self.ctx.probes["interpolate_op"] += 1
        if self._contentDigest(arr) != digestBefore:
            raise Violation("installed-array", "modified-by-interpolation",
                            "interpolateCollisionArray modified its source array")
        data = np.asarray(small[...])
        names = self.installed["names"]
        P = len(names)
        if data.shape != (P, NS - 1, NS - 1, P, NS - 1, NS - 1):
            raise Violation("loaded-shape", f"interpolate:P={P}",
                            f"interpolated array has shape {data.shape}")
        basis = small.getBasisType()
        NI = self.installed["N"]
        for i, a in enumerate(names):
            for j, b in enumerate(names):
                cand = self.installed["sources"].get((a, b))
                if cand is None:
                    continue
                # the installed operator (already restricted to the installed grid)
                # is the source here: expected = its action on the small space
                instBlock = np.asarray(arr[...])[i, :, :, j, :, :]
                want = expectedInterpolated(instBlock, arr.getBasisType(), NI, NS)
                got = smallChebForm(data[i, :, :, j, :, :], basis, NS)
                scale = float(np.max(np.abs(want))) + 1e-300
                err = float(np.max(np.abs(got - want))) / scale
                self.ctx.margin("action_interpolate_op", err / 1e-10)
                if not err <= 1e-10:
                    raise Violation(
                        "loaded-numbers",
                        f"interpolate-op:P={min(P, 2)}:{'diag' if a == b else 'offdiag'}",
                        f"interpolateCollisionArray {NI}->{NS}: block ({a},{b}) does not act "
                        f"like the source operator on the small space (relative deviation "
                        f"{err:.3e})")
        return ["interpolate", data]

    def abstraction(self) -> Any:
        present = sum(1 for p in self.pairs if p in self.disk)
        return [self.cfg["P"], self.solverN, self.solverBasis, present,
                getattr(self, "_lastClass", "-"), self.solver.collisionArray is not None,
                None if self.installed is None else self.installed["basis"]]
