"""
In-memory mutants for the sensitivity self-test.  A mutant rewrites the source
of ONE WallGo function in the running interpreter (inspect.getsource -> string
replace -> exec in the defining module -> rebind); /repo is never touched.  If
the text to replace is no longer present the mutant is reported as
not-applicable (the code has changed), never as a failure of the property.
"""

from __future__ import annotations

import importlib
import inspect
import textwrap
from typing import Any


class MutantNotApplicable(Exception):
    pass


def patchSource(moduleName: str, owner: str | None, name: str, old: str, new: str) -> None:
    mod = importlib.import_module(moduleName)
    holder: Any = getattr(mod, owner) if owner else mod
    raw = holder.__dict__[name] if owner else getattr(mod, name)
    fn = raw.__func__ if isinstance(raw, (staticmethod, classmethod)) else raw
    fn = getattr(fn, "_wgsimOrig", fn)
    src = inspect.getsource(fn)
    if old not in src:
        raise MutantNotApplicable(f"{moduleName}.{owner}.{name}: text to mutate not found")
    src = textwrap.dedent(src.replace(old, new, 1))
    scope: dict = {}
    exec(compile(src, f"<mutant of {owner}.{name}>", "exec"), mod.__dict__, scope)  # noqa: S102
    setattr(holder, name, scope[name])


def _wrapSetupWallSolver() -> None:
    """manager memoises the WallSolver per settings"""
    import WallGo.manager as mgr  # pylint: disable=import-outside-toplevel

    orig = mgr.WallGoManager.setupWallSolver

    def cached(self: Any, settings: Any) -> Any:
        key = (settings.bIncludeOffEquilibrium, settings.meanFreePathScale,
               settings.wallThicknessGuess, id(self.hydrodynamics))
        store = self.__dict__.setdefault("_solverCache", {})
        if key not in store:
            store[key] = orig(self, settings)
        return store[key]

    mgr.WallGoManager.setupWallSolver = cached


MUTANTS: dict = {
    # ---------------------------------------------------------------- C17
    "C17.rescale_without_recache": ("C17", lambda: patchSource(
        "WallGo.grid3Scales", "Grid3Scales", "changePositionFalloffScale",
        "        self._cacheCoordinates()", "        pass")),
    "C17.assign_before_assert": ("C17", lambda: patchSource(
        "WallGo.grid3Scales", "Grid3Scales", "_updateParameters",
        '        assert wallThickness > 0, "Grid3Scales error: wallThickness must be positive."',
        "        self.tailLengthInside = tailLengthInside\n"
        "        self.wallThickness = wallThickness\n"
        '        assert wallThickness > 0, "Grid3Scales error: wallThickness must be positive."')),
    "C17.jacobian_term_dropped": ("C17", lambda: patchSource(
        "WallGo.grid3Scales", "Grid3Scales", "compactificationDerivatives",
        "dzdzCompact += (1 - 2 * self.smoothing) * L / r",
        "dzdzCompact += (1 - self.smoothing) * L / r")),
    "C17.momentum_rescale_forgets_cache": ("C17", lambda: patchSource(
        "WallGo.grid", "Grid", "changeMomentumFalloffScale",
        "        self._cacheCoordinates()",
        "        (_, self.pzValues, self.ppValues) = self.decompactify(\n"
        "            self.chiValues, self.rzValues, self.rpValues)\n"
        "        (_, self.dpzdrz, _) = self.compactificationDerivatives(\n"
        "            self.chiValues, self.rzValues, self.rpValues)")),
    "C17.centre_ignored_in_map": ("C17", lambda: patchSource(
        "WallGo.grid3Scales", "Grid3Scales", "decompactify",
        "totalMapping(zCompact) - totalMapping(np.array(0.0)) + self.wallCenter",
        "totalMapping(zCompact) - totalMapping(np.array(0.0)) + 0.999 * self.wallCenter")),
    # ---------------------------------------------------------------- C18
    "C18.constant_uses_other_boundary": ("C18", lambda: patchSource(
        "WallGo.interpolatableFunction", "InterpolatableFunction", "_evaluateOutOfBounds",
        "res[xUpper] = np.asarray(interpolatedFunction(rangeMax))",
        "res[xUpper] = np.asarray(interpolatedFunction(rangeMin))")),
    "C18.derivative_mask_inverted": ("C18", lambda: patchSource(
        "WallGo.interpolatableFunction", "InterpolatableFunction", "derivative",
        "belowRange = xEvaluateRegion < self._rangeMin",
        "belowRange = xEvaluateRegion > self._rangeMin")),
    "C18.extension_forgets_old_table": ("C18", lambda: patchSource(
        "WallGo.interpolatableFunction", "InterpolatableFunction", "extendInterpolationTable",
        "xBlocks = [np.asarray(self._interpolationPoints)]",
        "xBlocks = [np.asarray(self._interpolationPoints)[1:]]")),
    "C18.extension_values_misaligned": ("C18", lambda: patchSource(
        "WallGo.interpolatableFunction", "InterpolatableFunction", "extendInterpolationTable",
        "fxBlocks.insert(0, np.asarray(self._functionImplementation(appendPointsMin)))",
        "fxBlocks.insert(0, np.asarray(self._functionImplementation(appendPointsMin))[::-1])")),
    "C18.read_keeps_2d_for_scalar": ("C18", lambda: patchSource(
        "WallGo.interpolatableFunction", "InterpolatableFunction", "readInterpolationTable",
        "            if columns == 2:", "            if columns == 1:")),
    "C18.inclusive_mask_exclusive": ("C18", lambda: patchSource(
        "WallGo.interpolatableFunction", "InterpolatableFunction", "_findInterpolatablePoints",
        "(x <= self._rangeMax) & (x >= self._rangeMin)",
        "(x < self._rangeMax) & (x >= self._rangeMin)")),
    # ---------------------------------------------------------------- C14
    "C14.assign_before_load_finished": ("C14", lambda: patchSource(
        "WallGo.boltzmann", "BoltzmannSolver", "loadCollisions",
        "        try:\n", "        self.collisionArray = None\n        try:\n")),
    "C14.pair_indices_swapped": ("C14", lambda: patchSource(
        "WallGo.collisionArray", "CollisionArray", "newFromDirectory",
        "collisionFileArray[i, :, :, j, :, :] = collisionDataset",
        "collisionFileArray[j, :, :, i, :, :] = collisionDataset")),
    "C14.basis_change_without_inverse_transpose": ("C14", lambda: patchSource(
        "WallGo.collisionArray", "CollisionArray", "changeBasis",
        "inverseTranspose=True", "inverseTranspose=False")),
    "C14.interpolation_axes_merged": ("C14", lambda: patchSource(
        "WallGo.collisionArray", "CollisionArray", "interpolateCollisionArray",
        "            0,\n            1,\n        ).reshape(newShape)",
        "            0,\n            0,\n        ).reshape(newShape)")),
    "C14.size_check_only_first_pair": ("C14", lambda: patchSource(
        "WallGo.collisionArray", "CollisionArray", "newFromDirectory",
        "                            if size != basisSizeFile:",
        "                            if size != basisSizeFile and i == 0:")),
    # ---------------------------------------------------------------- C01
    "C01.reports_bracket_end": ("C01", lambda: patchSource(
        "WallGo.equationOfMotion", "EOM", "solveWall",
        "        wallVelocity = optimizeResult.root",
        "        wallVelocity = wallVelocityMin")),
    "C01.xtol_ten_times_larger": ("C01", lambda: patchSource(
        "WallGo.equationOfMotion", "EOM", "solveWall",
        "xtol=self.errTol,", "xtol=30 * self.errTol,")),
    "C01.runaway_with_velocity": ("C01", lambda: patchSource(
        "WallGo.equationOfMotion", "EOM", "solveWall",
        "            results.setWallVelocities(None, None, wallVelocityLTE)\n"
        "            results.setWallParams(wallParamsMax)",
        "            results.setWallVelocities(wallVelocityMax, None, wallVelocityLTE)\n"
        "            results.setWallParams(wallParamsMax)")),
    "C01.unconverged_reported_as_success": ("C01", lambda: patchSource(
        "WallGo.equationOfMotion", "EOM", "solveWall",
        "        elif not self.successWallPressure:", "        elif False:")),
    "C01.cached_solver_no_tolerance_reset": ("C01", lambda: (
        _wrapSetupWallSolver(),
        patchSource("WallGo.equationOfMotion", "EOM", "solveWall",
                    "        self.pressAbsErrTol = 1e-8\n", "        pass\n"))),
    "C01.cached_solver_no_grid_update": ("C01", lambda: (
        _wrapSetupWallSolver(),
        patchSource("WallGo.equationOfMotion", "EOM", "wallPressure",
                    "        self._updateGrid(wallParams, velocityMid)\n",
                    "        if not getattr(self, '_gridDone', False):\n"
                    "            self._updateGrid(wallParams, velocityMid)\n"
                    "            self._gridDone = True\n"))),
    "C01.profiles_from_previous_evaluation": ("C01", lambda: patchSource(
        "WallGo.equationOfMotion", "EOM", "solveWall",
        "        results.setWallParams(wallParams)\n"
        "        results.setBoltzmannBackground(boltzmannBackground)",
        "        results.setWallParams(wallParamsMax)\n"
        "        results.setBoltzmannBackground(boltzmannBackground)")),
}


def apply(name: str) -> None:
    if name not in MUTANTS:
        raise SystemExit(f"HARNESS-ERROR unknown mutant {name}")
    MUTANTS[name][1]()
