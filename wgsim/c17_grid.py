"""
C17 -- grid coordinate maps: seeded rescale histories on ONE grid object
(what EOM._updateGrid does to the grid it shares with the Boltzmann solver)
against a freshly constructed grid; per-state invariants (monotone, origin,
Jacobian = derivative of the map by the fundamental theorem, centre slope,
inverse) ride along at every state the histories reach.  DESIGN.md section 3.
"""

from __future__ import annotations

import math
import random
import warnings
from typing import Any

import numpy as np
from scipy.integrate import quad

from .core import Machine, Violation, Skip, HarnessError, Ctx

CACHED = ("xiValues", "pzValues", "ppValues", "dxidchi", "dpzdrz", "dppdrp")


def _lim(L: float, r: float, s: float) -> float:
    """the documented lower bound of both tail lengths"""
    return L * (0.5 + s) / r


def _logu(rng: random.Random, lo: float, hi: float) -> float:
    return 10 ** rng.uniform(math.log10(lo), math.log10(hi))


class GridMachine(Machine):
    PROP = "C17"
    MAX_STEPS = 14
    MUTATORS = frozenset({"rescale", "mom", "rejected", "other_grid"})
    OBSERVERS = frozenset({"observe", "rescale", "mom", "rejected", "other_grid"})
    RULE = (
        "one history = one Grid3Scales (80%) or Grid (20%) object with seeded M, N, "
        "spacing, r, smoothing and initial scales, then up to 14 steps drawn from "
        "{rescale (admissible; 1/3 of them on the admissibility boundary exactly as "
        "EOM._updateGrid computes them), rejected rescale (one documented constraint "
        "violated), momentum rescale, observe}. After EVERY step the object is compared "
        "bitwise with a grid constructed from scratch with the current parameters; "
        "observe adds seeded-point map/Jacobian/inverse comparisons, monotonicity, "
        "origin, centre slope and the fundamental-theorem check of the Jacobian. "
        "distinct = sha256 of (config, step list); non-trivial = at least one "
        "successful state-mutating step followed by a checked observation."
    )
    ABSTRACTION = ("(class, spacing, decade of L, bucket of tail/limit in/out, bucket of r, "
                   "decade of smoothing, decade of T, #accepted rescales bucket, "
                   "last step rejected?)")
    COMPONENTS_REAL = ["WallGo.Grid", "WallGo.Grid3Scales", "numpy"]
    COMPONENTS_STUB = ["the caller (EOM._updateGrid's sequence of rescale calls is "
                       "replaced by the seeded history generator; its argument formula "
                       "is reproduced for the 'eom' kind of rescale)"]
    ASSUMPTIONS = [
        "parameter domain: L in [1e-2,1e2], tails up to 100x the documented minimum, "
        "r in [0.1,0.9], smoothing in [1e-2,0.9], centre within 3L, T in [1e-2,1e2], "
        "M in 3..60, N odd in 3..21",
        "scipy.integrate.quad (epsrel 1e-12) is trusted as the integrator of the "
        "fundamental-theorem oracle",
        "comparison with a fresh grid uses 1e-12 relative + 1e-13 of the length scale "
        "(the unchanged code reproduces the fresh arrays bitwise; the tolerance keeps a "
        "valid re-ordering of floating-point operations from alarming)",
    ]
    REQUIRED_REACH = {
        "quick": {"faultFired": ["rejected_rescale"],
                  "probes": ["on_constraint_boundary", "rejected_then_accepted",
                             "rescale_count_ge5", "plain_grid", "uniform_spacing",
                             "single_argument_rescale", "tiny_step_rescale"]},
        "thorough": {"faultFired": ["rejected_rescale"],
                     "probes": ["on_constraint_boundary", "rejected_then_accepted",
                                "rescale_count_ge5", "plain_grid", "uniform_spacing"]},
    }
    OPS = ("rescale", "rejected", "mom", "observe", "other_grid")
    POSSIBLE_BIGRAMS = 5 + 5 * 5

    # ------------------------------------------------------------------ config
    @staticmethod
    def drawConfig(rng: random.Random, tier: str) -> dict:
        cls = "Grid3Scales" if rng.random() < 0.8 else "Grid"
        M = rng.choice([3, 4, 5, 8, 11, 16, 20, 25, 30, 40, 50, 60])
        N = rng.choice([3, 5, 7, 9, 11, 15, 21])
        spacing = "Spectral" if rng.random() < 0.75 else "Uniform"
        T = _logu(rng, 1e-2, 1e2)
        cfg: dict = {"cls": cls, "M": M, "N": N, "spacing": spacing, "T": T,
                     # swarm: workload mix of this run
                     "wRescale": rng.choice([1, 2, 4]), "wRejected": rng.choice([0, 1, 2]),
                     "wMom": rng.choice([0, 1, 2]), "wObserve": rng.choice([1, 2, 3]),
                     "wOther": rng.choice([0, 0, 1]),
                     "pEom": rng.choice([0.0, 0.33, 0.8])}
        if cls == "Grid3Scales":
            L = _logu(rng, 1e-2, 1e2)
            r = rng.uniform(0.1, 0.9)
            s = _logu(rng, 1e-2, 0.9)
            lim = _lim(L, r, s)
            cfg.update({"L": L, "r": r, "s": s,
                        "tailIn": lim * (1 + _logu(rng, 1e-3, 1e2)),
                        "tailOut": lim * (1 + _logu(rng, 1e-3, 1e2)),
                        "centre": L * rng.uniform(-3, 3)})
        else:
            cfg.update({"L": _logu(rng, 1e-2, 1e2)})
        return cfg

    @staticmethod
    def simplerConfigs(cfg: dict):
        for M in (3, 5):
            if cfg["M"] > M:
                yield dict(cfg, M=M)
        if cfg["N"] > 3:
            yield dict(cfg, N=3)
        if cfg["spacing"] != "Spectral":
            yield dict(cfg, spacing="Spectral")
        if cfg["T"] != 1.0:
            yield dict(cfg, T=1.0)
        if cfg["cls"] == "Grid3Scales":
            if cfg["centre"] != 0.0:
                yield dict(cfg, centre=0.0)
            if (cfg["L"], cfg["r"], cfg["s"]) != (1.0, 0.5, 0.1):
                yield dict(cfg, L=1.0, r=0.5, s=0.1, tailIn=2.0, tailOut=2.0)

    # ------------------------------------------------------------------ set-up
    def __init__(self, cfg: dict, ctx: Ctx):
        super().__init__(cfg, ctx)
        import WallGo  # pylint: disable=import-outside-toplevel
        self.WallGo = WallGo
        self.is3 = cfg["cls"] == "Grid3Scales"
        # model: the constructor arguments a fresh grid would receive now
        if self.is3:
            self.params = {"tailIn": cfg["tailIn"], "tailOut": cfg["tailOut"],
                           "L": cfg["L"], "centre": cfg["centre"], "T": cfg["T"]}
        else:
            self.params = {"L": cfg["L"], "T": cfg["T"]}
        self.nAccepted = 0
        self.others: list = []
        self.lastRejected = False
        self.everRejected = False
        with warnings.catch_warnings():
            warnings.simplefilter("ignore")
            self.grid = self._construct(self.params)
        if self.is3:
            ctx.probes["g3s"] += 1
        else:
            ctx.probes["plain_grid"] += 1
        if cfg["spacing"] == "Uniform":
            ctx.probes["uniform_spacing"] += 1

    def _construct(self, p: dict) -> Any:
        c = self.cfg
        if self.is3:
            return self.WallGo.Grid3Scales(
                c["M"], c["N"], p["tailIn"], p["tailOut"], p["L"], p["T"],
                c["r"], c["s"], p["centre"], c["spacing"])
        return self.WallGo.Grid(c["M"], c["N"], p["L"], p["T"], c["spacing"])

    # ------------------------------------------------------------------ generator
    def nextStep(self, rng: random.Random, index: int) -> dict | None:
        c = self.cfg
        ops = ["rescale"] * c["wRescale"] + ["mom"] * c["wMom"] + ["observe"] * c["wObserve"]
        ops += ["other_grid"] * c.get("wOther", 0)
        if self.is3:
            ops += ["rejected"] * c["wRejected"]
        if index == self.MAX_STEPS - 1:
            op = "observe"
        else:
            op = rng.choice(ops)
        if op == "rescale":
            if not self.is3:
                return {"op": "rescale", "L": _logu(rng, 1e-2, 1e2)}
            r, s = c["r"], c["s"]
            p = self.params
            roll = rng.random()
            if roll < 0.25:
                # change exactly one of the four arguments (or none), keeping the
                # call admissible: what a converging solver does from one pressure
                # evaluation to the next
                which = rng.choice(["centre", "centre", "none", "tailIn", "tailOut", "L"])
                step = {"op": "rescale", "kind": "one:" + which, "L": p["L"],
                        "centre": p["centre"], "tailIn": p["tailIn"], "tailOut": p["tailOut"]}
                lim = _lim(p["L"], r, s)
                if which == "centre":
                    # exactly zero is a centre like any other (and the default)
                    step["centre"] = 0.0 if rng.random() < 0.3 else p["L"] * rng.uniform(-3, 3)
                elif which in ("tailIn", "tailOut"):
                    step[which] = lim * (1 + _logu(rng, 1e-3, 1e2))
                elif which == "L":
                    step["L"] = p["L"] * rng.uniform(0.3, 0.999)  # tails stay admissible
                return step
            if roll < 0.4:
                # a tiny step in all four arguments: a converging solver's last
                # iterations (relative change 1e-9 ... 1e-5)
                def nudge(v: float) -> float:
                    return v * (1 + rng.choice([-1, 1]) * _logu(rng, 1e-9, 1e-5))
                step = {"op": "rescale", "kind": "tiny", "L": nudge(p["L"]),
                        "centre": nudge(p["centre"]) if p["centre"] else 0.0,
                        "tailIn": nudge(p["tailIn"]), "tailOut": nudge(p["tailOut"])}
                lim = _lim(step["L"], r, s)
                step["tailIn"] = max(step["tailIn"], lim * (1 + 1e-6))
                step["tailOut"] = max(step["tailOut"], lim * (1 + 1e-6))
                return step
            L = _logu(rng, 1e-2, 1e2)
            centre = 0.0 if rng.random() < 0.1 else L * rng.uniform(-3, 3)
            if rng.random() < c["pEom"]:
                # exactly what EOM._updateGrid passes when the mean free path is
                # short (or off-equilibrium is off): tails ON the boundary formula
                base = L * (0.5 + 1.05 * s) / r
                gamma = 1 / math.sqrt(1 - rng.uniform(0.01, 0.99) ** 2)
                mfp = rng.choice([0.0, _logu(rng, 1e-2, 1e3)])
                return {"op": "rescale", "kind": "eom", "L": L, "centre": centre,
                        "tailIn": max(mfp * gamma, base), "tailOut": max(mfp / gamma, base)}
            lim = _lim(L, r, s)
            return {"op": "rescale", "kind": "free", "L": L, "centre": centre,
                    "tailIn": lim * (1 + _logu(rng, 1e-3, 1e2)),
                    "tailOut": lim * (1 + _logu(rng, 1e-3, 1e2))}
        if op == "rejected":
            L = _logu(rng, 1e-2, 1e2)
            r, s = c["r"], c["s"]
            lim = _lim(L, r, s)
            good = lim * (1 + _logu(rng, 1e-3, 1e2))
            which = rng.choice(["L<=0", "tailIn<lim", "tailOut<lim", "tailIn==lim",
                                "tailOut==lim"])
            step = {"op": "rejected", "which": which, "L": L, "centre": L * rng.uniform(-3, 3),
                    "tailIn": good, "tailOut": good}
            if which == "L<=0":
                step["L"] = rng.choice([0.0, -L])
            elif which == "tailIn<lim":
                step["tailIn"] = lim * rng.uniform(0.05, 0.999)
            elif which == "tailOut<lim":
                step["tailOut"] = lim * rng.uniform(0.05, 0.999)
            elif which == "tailIn==lim":
                step["tailIn"] = lim
            else:
                step["tailOut"] = lim
            return step
        if op == "mom":
            return {"op": "mom", "T": _logu(rng, 1e-2, 1e2)}
        if op == "other_grid":
            # a second grid object with other scales comes to life in the same process
            # (the manager builds a new Grid3Scales for every solve) and is rescaled
            L = _logu(rng, 1e-2, 1e2)
            r, sm = rng.uniform(0.1, 0.9), _logu(rng, 1e-2, 0.9)
            lim = _lim(L, r, sm)
            return {"op": "other_grid", "L": L, "r": r, "s": sm, "T": _logu(rng, 1e-2, 1e2),
                    "tailIn": lim * (1 + _logu(rng, 1e-3, 1e2)),
                    "tailOut": lim * (1 + _logu(rng, 1e-3, 1e2)), "centre": L * rng.uniform(-3, 3)}
        nPts = rng.choice([1, 3, 6])
        edge = rng.choice([0.9, 0.99, 0.999])
        chi = sorted(rng.uniform(-edge, edge) for _ in range(nPts))
        rz = sorted(rng.uniform(-edge, edge) for _ in range(nPts))
        rp = sorted(rng.uniform(-1, edge) for _ in range(nPts))
        intervals = []
        for _ in range(rng.choice([1, 2, 3])):
            a = rng.uniform(-edge, edge)
            width = rng.choice([0.01, 0.1, 0.5, 1.5])
            b = min(edge, a + width * rng.uniform(0.2, 1.0))
            if b > a:
                intervals.append([a, b])
        return {"op": "observe", "chi": chi, "rz": rz, "rp": rp, "intervals": intervals}

    def simplerSteps(self, step: dict):
        if step["op"] == "observe":
            if len(step["chi"]) > 1:
                yield dict(step, chi=step["chi"][:1], rz=step["rz"][:1], rp=step["rp"][:1])
            if step["chi"] != [0.5]:
                yield dict(step, chi=[0.5], rz=[0.5], rp=[0.5])
            if len(step["intervals"]) > 1:
                for iv in step["intervals"]:
                    yield dict(step, intervals=[iv])
            if step["intervals"] and step["intervals"] != [[-0.5, 0.5]]:
                yield dict(step, intervals=[[-0.5, 0.5]])
        if step["op"] == "rescale" and "tailIn" in step and step.get("centre") != 0.0:
            yield dict(step, centre=0.0)
        if step["op"] == "mom" and step["T"] != 1.0:
            yield dict(step, T=1.0)

    # ------------------------------------------------------------------ interpreter
    def execute(self, step: dict) -> Any:
        op = step["op"]
        with warnings.catch_warnings():
            warnings.simplefilter("ignore")
            if op == "rescale":
                obs = self._rescale(step)
            elif op == "rejected":
                obs = self._rejected(step)
            elif op == "mom":
                obs = self._mom(step)
            elif op == "other_grid":
                obs = self._otherGrid(step)
            elif op == "observe":
                obs = self._observe(step)
            else:
                raise HarnessError(f"unknown op {op}")
            if op != "observe":
                self._checkFresh(None)
        return obs

    def _admissible(self, step: dict) -> bool:
        if not self.is3:
            return step["L"] > 0
        lim = _lim(step["L"], self.cfg["r"], self.cfg["s"])
        return step["L"] > 0 and step["tailIn"] > lim and step["tailOut"] > lim

    def _rescale(self, step: dict) -> Any:
        if self.is3 != ("tailIn" in step):
            raise Skip()
        if not self._admissible(step):
            raise Skip()
        try:
            if self.is3:
                self.grid.changePositionFalloffScale(
                    step["tailIn"], step["tailOut"], step["L"], step["centre"])
            else:
                self.grid.changePositionFalloffScale(step["L"])
        except Exception as exc:  # pylint: disable=broad-except
            raise Violation("admissible-rescale-raised", type(exc).__name__,
                            f"admissible rescale raised {type(exc).__name__}: {exc}") from exc
        if self.is3:
            self.params.update(tailIn=step["tailIn"], tailOut=step["tailOut"], L=step["L"],
                               centre=step["centre"])
            if step.get("kind") == "eom":
                self.ctx.probes["on_constraint_boundary"] += 1
            if str(step.get("kind", "")).startswith("one:"):
                self.ctx.probes["single_argument_rescale"] += 1
            if step.get("kind") == "tiny":
                self.ctx.probes["tiny_step_rescale"] += 1
        else:
            self.params.update(L=step["L"])
        if self.lastRejected:
            self.ctx.probes["rejected_then_accepted"] += 1
        self.lastRejected = False
        self.nAccepted += 1
        if self.nAccepted == 5:
            self.ctx.probes["rescale_count_ge5"] += 1
        return ["accepted"]

    def _rejected(self, step: dict) -> Any:
        if not self.is3 or self._admissible(step):
            raise Skip()
        raised = None
        try:
            self.grid.changePositionFalloffScale(
                step["tailIn"], step["tailOut"], step["L"], step["centre"])
        except Exception as exc:  # pylint: disable=broad-except
            raised = type(exc).__name__
        if raised is None:
            # accepted although a documented constraint is violated: only a
            # violation if constructing a new grid with those scales disagrees
            newParams = dict(self.params, tailIn=step["tailIn"], tailOut=step["tailOut"],
                             L=step["L"], centre=step["centre"])
            try:
                self._construct(newParams)
            except Exception as exc:  # pylint: disable=broad-except
                raise Violation(
                    "rescale-vs-construct", "rescale-accepted-constructor-rejects",
                    f"changePositionFalloffScale accepted {step['which']} but constructing "
                    f"a grid with the same scales raises {type(exc).__name__}") from exc
            self.params = newParams
            self.ctx.probes["inadmissible_accepted_by_both"] += 1
            return ["accepted-by-both"]
        self.ctx.faultFired["rejected_rescale"] += 1
        self.lastRejected = True
        self.everRejected = True
        return ["rejected", raised]

    def _otherGrid(self, step: dict) -> Any:
        c = self.cfg
        other = self.WallGo.Grid3Scales(c["M"], c["N"], step["tailIn"], step["tailOut"],
                                        step["L"], step["T"], step["r"], step["s"],
                                        step["centre"], c["spacing"])
        other.changePositionFalloffScale(step["tailIn"] * 1.5, step["tailOut"] * 1.25,
                                         step["L"], -step["centre"])
        other.changeMomentumFalloffScale(step["T"] * 2)
        self.others = (self.others + [other])[-2:]  # stays alive
        self.ctx.probes["second_grid_object_alive"] += 1
        return ["other_grid"]

    def _mom(self, step: dict) -> Any:
        if not step["T"] > 0:
            raise Skip()
        self.grid.changeMomentumFalloffScale(step["T"])
        self.params.update(T=step["T"])
        return ["mom"]

    # ------------------------------------------------------------------ oracles
    def _checkFresh(self, pts: tuple | None) -> list:
        """history == fresh, compared through public attributes and methods"""
        self.ctx.checks["fresh_equality"] += 1
        g = self.grid
        where = "after a rejected rescale" if self.lastRejected else "after rescale history"
        # the object's own consistency first: constructing the fresh grid below would
        # re-write any state that instances wrongly share
        self._selfConsistency(where)
        f = self._construct(self.params)
        obs = []
        p = self.params
        zScale = p["L"] if not self.is3 else (p["L"] / self.cfg["r"] + p["tailIn"]
                                              + p["tailOut"] + abs(p["centre"]))
        scales = {"xiValues": zScale, "dxidchi": zScale, "pzValues": p["T"], "dpzdrz": p["T"],
                  "ppValues": p["T"], "dppdrp": p["T"], 0: zScale, 1: p["T"], 2: p["T"]}
        for name in CACHED:
            a, b = getattr(g, name), getattr(f, name)
            if not _same(a, b, scales[name]):
                raise Violation("fresh-equality", f"cached:{name}",
                                f"{name} differs from a freshly constructed grid {where}: "
                                f"max abs diff {_maxdiff(a, b):.3e}", {"params": self.params})
            obs.append(a)
        for endpoints in (False, True):
            for meth in ("getCoordinates", "getCompactificationDerivatives",
                         "getCompactCoordinates"):
                ra, rb = getattr(g, meth)(endpoints), getattr(f, meth)(endpoints)
                for i, (a, b) in enumerate(zip(ra, rb)):
                    if not _same(a, b, 0.0 if meth == "getCompactCoordinates" else scales[i]):
                        raise Violation("fresh-equality", f"method:{meth}",
                                        f"{meth}(endpoints={endpoints})[{i}] differs from a "
                                        f"fresh grid {where}", {"params": self.params})
        if pts is not None:
            chi, rz, rp = pts
            for meth, args in (("decompactify", (chi, rz, rp)),
                               ("compactificationDerivatives", (chi, rz, rp))):
                ra, rb = getattr(g, meth)(*args), getattr(f, meth)(*args)
                for i, (a, b) in enumerate(zip(ra, rb)):
                    if not _same(np.asarray(a), np.asarray(b), scales[i]):
                        raise Violation("fresh-equality", f"method:{meth}",
                                        f"{meth}[{i}] at seeded points differs from a fresh "
                                        f"grid {where}", {"params": self.params})
                    obs.append(np.asarray(a))
            zs = g.decompactify(chi, rz, rp)
            ra, rb = g.compactify(*zs), f.compactify(*zs)
            for i, (a, b) in enumerate(zip(ra, rb)):
                if not _same(np.asarray(a), np.asarray(b), 1e5):  # compact coords: 1e-8
                    raise Violation("fresh-equality", "method:compactify",
                                    f"compactify[{i}] at seeded points differs from a fresh "
                                    f"grid {where}: {np.asarray(a)} vs {np.asarray(b)}",
                                    {"params": self.params})
        return obs

    def _scales(self) -> dict:
        p = self.params
        zScale = p["L"] if not self.is3 else (p["L"] / self.cfg["r"] + p["tailIn"]
                                              + p["tailOut"] + abs(p["centre"]))
        return {"xiValues": zScale, "dxidchi": zScale, "pzValues": p["T"], "dpzdrz": p["T"],
                "ppValues": p["T"], "dppdrp": p["T"], 0: zScale, 1: p["T"], 2: p["T"]}

    def _selfConsistency(self, where: str) -> None:
        """the cache is the map evaluated at the compact coordinates, and the centre
        slope of the three-scale map is L/r -- checked on the object as it is"""
        g = self.grid
        scales = self._scales()
        chi, rz, rp = g.getCompactCoordinates()
        for name, a, b in zip(CACHED, list(g.decompactify(chi, rz, rp))
                              + list(g.compactificationDerivatives(chi, rz, rp)),
                              [getattr(g, n) for n in CACHED]):
            if not _same(np.asarray(a), b, scales[name]):
                raise Violation("cache-consistency", f"cached:{name}",
                                f"cached {name} is not the map evaluated on the grid's "
                                f"compact coordinates {where}")
        if self.is3:
            j0 = float(g.compactificationDerivatives(
                np.array(0.0), np.array(0.0), np.array(0.0))[0])
            want = self.params["L"] / self.cfg["r"]
            self.ctx.margin("centre-slope", abs(j0 / want - 1) / 1e-10)
            if not abs(j0 / want - 1) <= 1e-10:
                raise Violation("centre-slope", "L/r",
                                f"dz/dchi(0) = {j0!r}, expected L/r = {want!r}",
                                {"params": self.params})

    def _observe(self, step: dict) -> Any:
        g = self.grid
        p = self.params
        chi = np.array(step["chi"], dtype=float)
        rz = np.array(step["rz"], dtype=float)
        rp = np.array(step["rp"], dtype=float)
        obs = self._checkFresh((chi, rz, rp))
        self.ctx.checks["per_state_invariants"] += 1
        # ---- strictly increasing in each direction, positive Jacobians
        for name in ("xiValues", "pzValues", "ppValues"):
            arr = getattr(g, name)
            if arr.size > 1 and not np.all(np.diff(arr) > 0):
                raise Violation("monotone", name, f"{name} is not strictly increasing",
                                {"params": p})
        for name in ("dxidchi", "dpzdrz", "dppdrp"):
            if not np.all(getattr(g, name) > 0):
                raise Violation("monotone", name, f"{name} is not positive", {"params": p})
        for i, (cs, nm) in enumerate(((chi, "z"), (rz, "pz"), (rp, "pp"))):
            args = [np.zeros_like(cs), np.zeros_like(cs), np.zeros_like(cs)]
            args[i] = cs
            vals = np.asarray(g.decompactify(*args)[i])
            jac = np.asarray(g.compactificationDerivatives(*args)[i])
            if cs.size > 1 and np.all(np.diff(cs) > 1e-9) and not np.all(np.diff(vals) > 0):
                raise Violation("monotone", f"map:{nm}",
                                f"map not increasing at seeded points in direction {nm}",
                                {"params": p, "x": cs.tolist()})
            if not np.all(jac > 0):
                raise Violation("monotone", f"jacobian:{nm}",
                                f"Jacobian not positive at seeded points in direction {nm}",
                                {"params": p, "x": cs.tolist()})
        # ---- origin
        z0, pz0, pp0 = g.decompactify(np.array(0.0), np.array(0.0), np.array(-1.0))
        centre = p.get("centre", 0.0)
        scale = p["L"] if not self.is3 else p["L"] + p["tailIn"] + p["tailOut"]
        if not abs(float(z0) - centre) <= 1e-12 * (scale + abs(centre)):
            raise Violation("origin", "z", f"z(chi=0) = {float(z0)!r}, wall centre = {centre!r}",
                            {"params": p})
        if not abs(float(pz0)) <= 1e-12 * p["T"]:
            raise Violation("origin", "pz", f"pz(rho_z=0) = {float(pz0)!r}", {"params": p})
        if not abs(float(pp0)) <= 1e-12 * p["T"]:
            raise Violation("origin", "pp", f"pp(rho_par=-1) = {float(pp0)!r}", {"params": p})
        # ---- centre slope of the three-scale map
        if self.is3:
            j0 = float(g.compactificationDerivatives(
                np.array(0.0), np.array(0.0), np.array(0.0))[0])
            want = p["L"] / self.cfg["r"]
            self.ctx.margin("centre-slope", abs(j0 / want - 1) / 1e-10)
            if not abs(j0 / want - 1) <= 1e-10:
                raise Violation("centre-slope", "L/r",
                                f"dz/dchi(0) = {j0!r}, expected L/r = {want!r}", {"params": p})
        # ---- Jacobian is the derivative of the map (fundamental theorem)
        for a, b in step["intervals"]:
            if not b > a:
                continue
            self._ftc(0, "z", a, b)
            self._ftc(1, "pz", a, b)
            self._ftc(2, "pp", a, b)
        # ---- integer-typed compact coordinates are the same points as their floats
        ints = (0, 0, 0)
        intArrays = (np.array([0]), np.array([0]), np.array([-1, 0]))
        floatArrays = tuple(a.astype(float) for a in intArrays)
        for meth in ("decompactify", "compactificationDerivatives"):
            fromInts = getattr(g, meth)(*ints)
            fromFloats = getattr(g, meth)(0.0, 0.0, 0.0)
            arrInts = getattr(g, meth)(*intArrays)
            arrFloats = getattr(g, meth)(*floatArrays)
            for i, nm in enumerate(("z", "pz", "pp")):
                pairs = ((fromInts[i], fromFloats[i]), (arrInts[i], arrFloats[i]))
                for a, b in pairs:
                    a, b = np.asarray(a, dtype=float), np.asarray(b, dtype=float)
                    if a.shape != b.shape or not np.allclose(a, b, rtol=1e-12, atol=1e-12 * scale,
                                                             equal_nan=True):
                        raise Violation(
                            "integer-input", f"{meth}:{nm}",
                            f"{meth} of integer-typed compact coordinates differs from the same "
                            f"points given as floats in direction {nm}: {a.tolist()} vs "
                            f"{b.tolist()}", {"params": p})
        self.ctx.checks["integer_typed_input"] += 1
        # ---- the inverse map offered by the same object undoes the map
        zs = g.decompactify(chi, rz, rp)
        back = g.compactify(*zs)
        jacs = g.compactificationDerivatives(chi, rz, rp)
        for i, (orig, got, nm) in enumerate(zip((chi, rz, rp), back, ("z", "pz", "pp"))):
            if not orig.size:
                continue
            err = np.abs(np.asarray(got) - orig)
            # |delta x| <= (rounding of map)/Jacobian, plus the rounding of x itself
            allowed = 1e-9 + 4 * np.array([self._mapError(i, abs(float(v)))
                                           for v in np.atleast_1d(zs[i])]) / np.asarray(jacs[i])
            self.ctx.margin("inverse:" + nm, float(np.max(err / allowed)))
            if not np.all(err <= allowed):
                raise Violation(
                    "inverse", f"{self.cfg['cls']}:{nm}",
                    f"compactify(decompactify(x)) differs from x by {float(np.max(err)):.3e} "
                    f"in direction {nm} on a {self.cfg['cls']}", {"params": p, "x": orig.tolist()})
        return obs

    def _ftc(self, direction: int, name: str, a: float, b: float) -> None:
        g = self.grid
        self.ctx.checks["ftc"] += 1
        zero = np.array(0.0)

        def jac(x: float) -> float:
            args = [zero, zero, zero]
            args[direction] = np.array(x)
            return float(g.compactificationDerivatives(*args)[direction])

        def val(x: float) -> float:
            args = [zero, zero, zero]
            args[direction] = np.array(x)
            return float(g.decompactify(*args)[direction])

        points = None
        if direction == 0 and self.is3:
            r = self.cfg["r"]
            points = [x for x in (-r, 0.0, r) if a < x < b] or None
        with warnings.catch_warnings():
            warnings.simplefilter("ignore")
            integral, quadErr = quad(jac, a, b, epsabs=0, epsrel=1e-12, limit=400,
                                     points=points)
        va, vb = val(a), val(b)
        delta = vb - va
        # rounding of the map itself (calibrated against 40-digit arithmetic, see
        # DESIGN.md C17): two evaluations
        tol = 1e-9 * abs(integral) + 2 * self._mapError(direction, max(abs(va), abs(vb)))
        if quadErr > 0.1 * tol:
            self.ctx.probes["ftc_quadrature_not_sharp_enough_skipped"] += 1
            return
        self.ctx.margin("jacobian-ftc:" + name, abs(delta - integral) / tol)
        if not abs(delta - integral) <= tol:
            raise Violation(
                "jacobian-ftc", name,
                f"map({b})-map({a}) = {delta!r} but the integral of the reported Jacobian "
                f"is {integral!r} (direction {name}; tolerance {tol:.3e})",
                {"params": self.params, "interval": [a, b]})

    def _aMin(self) -> float:
        """smoothing widths of the three-scale map, from the documented formula"""
        p, r, s = self.params, self.cfg["r"], self.cfg["s"]
        out = []
        for t in (p["tailIn"], p["tailOut"]):
            out.append(math.sqrt(4 * s * p["L"] * r**2 * (2 * r * t - p["L"] * (1 + s)))
                       / abs(2 * r * t - p["L"] * (1 + 2 * s)))
        return min(out)

    def _mapError(self, direction: int, magnitude: float) -> float:
        """Sound bound on the floating-point error of one map evaluation.  The
        closed-form five-term position map cancels terms of the size of the tails
        whose arctanh arguments approach 1 as the smoothing width a -> 0; measured
        against 40-digit arithmetic on 80 000 points: error <= 5e3*eps*scale/min(a,1)^2.
        A 20x margin is kept."""
        eps = 2.3e-16
        p = self.params
        if direction == 0 and self.is3:
            scale = p["L"] / self.cfg["r"] + p["tailIn"] + p["tailOut"] + abs(p["centre"])
            return 1e5 * eps * scale / min(self._aMin(), 1.0) ** 2 + 64 * eps * magnitude
        scale = p["L"] if direction == 0 else p["T"]
        return 64 * eps * (magnitude + scale)

    def abstraction(self) -> Any:
        p = self.params
        ab = [self.cfg["cls"], self.cfg["spacing"], int(math.floor(math.log10(p["L"]))),
              int(math.floor(math.log10(p["T"]))), min(self.nAccepted, 5) // 2,
              self.lastRejected]
        if self.is3:
            lim = _lim(p["L"], self.cfg["r"], self.cfg["s"])
            for t in (p["tailIn"], p["tailOut"]):
                ratio = t / lim - 1
                ab.append(0 if ratio < 0.06 else 1 if ratio < 1 else 2)
            ab.append(int(self.cfg["r"] * 4))
            ab.append(int(math.floor(math.log10(self.cfg["s"]))))
        return ab


def _same(a: Any, b: Any, scale: float = 0.0) -> bool:
    """Equal up to rounding.  'Equivalent to constructing a new grid' is a
    statement about values, not about bit patterns: a rescale that reaches the
    same numbers by a different but valid order of floating-point operations
    (differences of a few ulp) must not alarm.  Tolerance: 1e-12 relative plus
    1e-13 of the direction's length scale; infinities must match exactly."""
    a, b = np.asarray(a), np.asarray(b)
    if a.shape != b.shape:
        return False
    if a.dtype != b.dtype or a.dtype.kind != "f":
        return a.dtype == b.dtype and a.tobytes() == b.tobytes()
    fin = np.isfinite(a) & np.isfinite(b)
    if not np.array_equal(a[~fin], b[~fin], equal_nan=True):
        return False
    return bool(np.all(np.abs(a[fin] - b[fin]) <= 1e-12 * (np.abs(a[fin]) + np.abs(b[fin]))
                       + 1e-13 * scale))


def _maxdiff(a: Any, b: Any) -> float:
    a, b = np.asarray(a, dtype=float), np.asarray(b, dtype=float)
    if a.shape != b.shape:
        return float("inf")
    with np.errstate(invalid="ignore"):
        d = np.abs(a - b)
    return float(np.nanmax(d)) if d.size else 0.0
