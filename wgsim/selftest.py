"""
Self-tests of the machinery (never part of a property verdict):

  determinism  -- many seeds, each run in worker pools of two different sizes
                  and in fresh interpreters under other PYTHONHASHSEED values;
                  event-log digests must agree everywhere.
  sensitivity  -- in-memory mutants of WallGo (wgsim.mutants) must each be
                  caught by the property's check within a small budget.

Output lines start with SELFTEST; a detected mutant is reported as
"SELFTEST mutant=<name> DETECTED", never as a VIOLATION line.
"""

from __future__ import annotations

import concurrent.futures as cf
import multiprocessing
import os
import subprocess
import sys
import time

from . import core, driver, mutants

SAMPLE = {"quick": {"C17": 48, "C18": 48, "C14": 48, "C01": 2},
          "thorough": {"C17": 400, "C18": 400, "C14": 300, "C01": 16}}
MUTANT_RUNS = {"C17": 1500, "C18": 3000, "C14": 1500, "C01": 112}  # C01: the quick-tier batch


def _digests(args: tuple) -> dict:
    prop, tier, seed, indices = args
    machineCls = driver.loadMachine(prop)
    known, _ = driver.loadKnownFindings(prop)
    out = {}
    for index in indices:
        seedI = core.deriveSeed(prop, seed, index)
        cfg = machineCls.drawConfig(core.stream(seedI, "cfg"), tier)
        res = core.executeHistory(machineCls, cfg, None, seedI, frozenset(known))
        out[index] = res.digest
    return out


def _pool(prop: str, tier: str, seed: int, indices: list, workers: int) -> dict:
    ctx = multiprocessing.get_context("fork")
    chunks = [indices[i::workers] for i in range(workers)]
    out: dict = {}
    with cf.ProcessPoolExecutor(max_workers=workers, mp_context=ctx) as pool:
        for part in pool.map(_digests, [(prop, tier, seed, c) for c in chunks if c]):
            out.update(part)
    return out


def _fresh(prop: str, tier: str, seed: int, indices: list, hashSeed: str, groups: int) -> dict:
    env = dict(os.environ, PYTHONHASHSEED=hashSeed)
    procs = []
    for g in range(groups):
        part = indices[g::groups]
        if not part:
            continue
        procs.append(subprocess.Popen(
            [sys.executable, os.path.join(core.VERIF_ROOT, "wgsim", "main.py"), prop,
             "--digest-of", ",".join(map(str, part)), "--seed", str(seed), "--tier", tier],
            env=env, stdout=subprocess.PIPE, stderr=subprocess.STDOUT, text=True))
    out: dict = {}
    for proc in procs:
        text, _ = proc.communicate(timeout=7200)
        for line in text.splitlines():
            if line.startswith("DIGEST "):
                _, idx, dg = line.split()
                out[int(idx)] = dg
    return out


def determinism(prop: str, tier: str, seed: int) -> bool:
    n = SAMPLE[tier][prop]
    indices = list(range(n))
    t0 = time.time()
    a = _pool(prop, tier, seed, indices, 16 if prop != "C01" else min(16, n))
    b = _pool(prop, tier, seed, indices, 5 if prop != "C01" else min(5, n))
    c = _fresh(prop, tier, seed, indices, "11", 8 if prop != "C01" else min(8, n))
    d = _fresh(prop, tier, seed, indices, "2718", 3 if prop != "C01" else min(3, n))
    bad = [i for i in indices if not (a.get(i) == b.get(i) == c.get(i) == d.get(i))
           or a.get(i) is None]
    print(f"SELFTEST determinism property={prop} seeds={n} x 4 executions "
          f"(pool16, pool5, fresh PYTHONHASHSEED=11 in 8 procs, fresh PYTHONHASHSEED=2718 in 3 "
          f"procs) disagreements={len(bad)} wall_s={time.time() - t0:.1f}", flush=True)
    for i in bad[:5]:
        print(f"SELFTEST   index {i}: {a.get(i)} {b.get(i)} {c.get(i)} {d.get(i)}")
    return not bad


def sensitivity(prop: str, seed: int, only: str | None) -> bool:
    ok = True
    for name, (mprop, _) in sorted(mutants.MUTANTS.items()):
        if mprop != prop or (only and only not in name):
            continue
        t0 = time.time()
        env = dict(os.environ, WGSIM_MUTANT=name)
        proc = subprocess.run(
            [sys.executable, os.path.join(core.VERIF_ROOT, "wgsim", "main.py"), prop,
             "--runs", str(MUTANT_RUNS[prop]), "--seed", str(seed), "--no-evidence",
             "--no-selfcheck", "--replay-dir", "selftest"],
            env=env, capture_output=True, text=True, timeout=7200, check=False)
        keys = [line.split()[1] for line in proc.stdout.splitlines()
                if line.startswith("violation key=")]
        if "MUTANT-NOT-APPLICABLE" in proc.stdout:
            print(f"SELFTEST mutant={name} NOT-APPLICABLE (source text changed)", flush=True)
            continue
        detected = proc.returncode == 1 and keys
        print(f"SELFTEST mutant={name} {'DETECTED' if detected else 'MISSED'} "
              f"exit={proc.returncode} {' '.join(keys[:3])} wall_s={time.time() - t0:.1f}",
              flush=True)
        if not detected:
            ok = False
            print("SELFTEST   " + "\nSELFTEST   ".join(
                l for l in proc.stdout.splitlines()[-6:] if not l.startswith("VIOLATION")))
    return ok


def main(tier: str, seed: int, only: str | None) -> int:
    props = ["C17", "C18", "C14", "C01"]
    what = os.environ.get("WGSIM_SELFTEST", "determinism,sensitivity").split(",")
    if only and only.split(".")[0] in props:
        props = [only.split(".")[0]]
    ok = True
    for prop in props:
        if "determinism" in what:
            ok &= determinism(prop, tier, seed)
        if "sensitivity" in what:
            ok &= sensitivity(prop, seed, only if only and "." in only else None)
    print(f"SELFTEST {'PASSED' if ok else 'FAILED'}")
    return 0 if ok else 3
