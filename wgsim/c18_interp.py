"""
C18 -- InterpolatableFunction: one object through a seeded history of
evaluations / derivatives / extensions / mode changes / adaptive updates /
write+read, with a function body that may be non-finite on an interval or raise
at the k-th call, checked after every step against an executable statement of
the evaluation contract.  DESIGN.md section 3, C18.
"""

from __future__ import annotations

import math
import os
import random
import warnings
from typing import Any

import numpy as np
from scipy.interpolate import CubicSpline

from .core import Machine, Violation, Skip, HarnessError, Ctx

MODES = ("ERROR", "NONE", "CONSTANT", "FUNCTION")
CAPTURE = "<wgsim-capture>"
DX = {1: 1e-16 ** (1 / 5), 2: 1e-16 ** (1 / 6)}  # helpers.derivative, order 4


class InjectedFault(Exception):
    """raised by the function body at the armed call"""


# --------------------------------------------------------------------------
# exact function bodies
# --------------------------------------------------------------------------
class Body:
    """f_j(x) = A_j sin(w_j x + p_j) + B_j x + C_j, optionally non-finite on an
    open interval in one component (or all)."""

    def __init__(self, comps: list, bad: dict | None):
        self.comps = [tuple(c) for c in comps]
        self.R = len(comps)
        self.bad = bad
        self.scale = max(abs(c[0]) for c in self.comps)
        self.noise = 0.0            # absolute accuracy of one direct evaluation
        self.domain = (-60.0, 60.0)  # where inputs may be drawn
        self.accuracyClause = True

    def signal(self, order: int) -> float:
        """smallest typical size of the order-th derivative (to decide whether a
        tolerance is still informative)"""
        return min(abs(c[0]) * abs(c[1]) ** order for c in self.comps)

    def __call__(self, x: Any) -> np.ndarray:
        x = np.asanyarray(x, dtype=float)
        cols = [A * np.sin(w * x + p) + B * x + C for (A, w, p, B, C) in self.comps]
        if self.bad is not None:
            mask = (x > self.bad["lo"]) & (x < self.bad["hi"])
            if np.any(mask):
                fill = np.nan if self.bad["kind"] == "nan" else np.inf
                for j, col in enumerate(cols):
                    if self.bad["comp"] in (-1, j):
                        col = np.array(col, dtype=float)
                        col[mask] = fill
                        cols[j] = col
        if self.R == 1:
            return np.asarray(cols[0], dtype=float)
        return np.stack([np.asarray(c, dtype=float) for c in cols], axis=-1)

    def smooth(self, x: np.ndarray, n: int = 0) -> np.ndarray:
        """n-th derivative of the smooth formula (ignores the bad interval);
        shape x.shape + (R,)"""
        x = np.asanyarray(x, dtype=float)
        cols = []
        for (A, w, p, B, C) in self.comps:
            if n == 0:
                cols.append(A * np.sin(w * x + p) + B * x + C)
            elif n == 1:
                cols.append(A * w * np.cos(w * x + p) + B)
            elif n == 2:
                cols.append(-A * w * w * np.sin(w * x + p))
            else:
                raise HarnessError("derivative order")
        return np.stack(cols, axis=-1)

    def isBad(self, x: np.ndarray, pad: float = 0.0) -> np.ndarray:
        x = np.asanyarray(x, dtype=float)
        if self.bad is None:
            return np.zeros(x.shape, dtype=bool)
        return (x > self.bad["lo"] - pad) & (x < self.bad["hi"] + pad)

    def bound(self, k: int) -> float:
        """max_j sup |f_j^(k)| for k >= 2"""
        return max(abs(A) * abs(w) ** k for (A, w, p, B, C) in self.comps)

    def magnitude(self, x: np.ndarray) -> float:
        x = np.asanyarray(x, dtype=float)
        xm = float(np.max(np.abs(x))) if x.size else 0.0
        return max(abs(A) + abs(B) * (xm + 1) + abs(C) for (A, w, p, B, C) in self.comps)


class ThermalBody:
    """Exact values of the one-loop thermal functions J_b / J_f on x >= 0.5 by the
    harness's own quadrature (scipy.integrate.quad at 1e-12), with closed-form
    integrands for the first two x-derivatives.  Return dimension 2: (real part,
    imaginary part = 0 for x >= 0), as the real JbIntegral / JfIntegral return."""

    #: sup over x >= 0.5 of |f^(k)|, from 30-digit mpmath differentiation (decreasing in x)
    BOUNDS = {"Jb": {2: 0.27, 3: 0.5, 4: 1.42, 5: 7.34, 6: 52.4},
              "Jf": {2: 0.121, 3: 0.2, 4: 0.249, 5: 1.0, 6: 6.0}}
    #: inf over 0.5 <= x <= 25 of |f^(k)|
    SIGNAL = {"Jb": {1: 0.012, 2: 0.0011}, "Jf": {1: 0.012, 2: 0.0011}}
    _cache: dict = {}

    def __init__(self, which: str):
        self.which = which
        self.sign = -1.0 if which == "Jb" else 1.0
        self.R = 2
        self.bad = None
        self.comps = None
        self.noise = 1e-11      # typical accuracy of WallGo's quad (measured 1e-13)
        self.domain = (0.5, 25.0)
        self.scale = 2.0
        self.refObject: Any = None
        self.accuracyClause = True

    def _one(self, x: float, n: int) -> float:
        key = (self.which, n, x)
        hit = ThermalBody._cache.get(key)
        if hit is not None:
            return hit
        from scipy.integrate import quad  # pylint: disable=import-outside-toplevel
        sgn = self.sign  # Jb: 1 - e^-E, 1/(e^E - 1);  Jf: 1 + e^-E, 1/(e^E + 1)

        def integrand(y: float) -> float:
            E = math.sqrt(y * y + x)
            if n == 0:
                return -sgn * y * y * math.log1p(sgn * math.exp(-E))
            if E > 700:
                return 0.0
            eE = math.exp(E)
            den = eE + sgn
            if n == 1:
                return 0.5 * y * y / (E * den)
            return 0.5 * y * y * (-1.0 / (2 * E**3 * den) - eE / (2 * E * E * den * den))

        val, _ = quad(integrand, 0.0, np.inf, epsabs=1e-13, epsrel=1e-12, limit=400)
        ThermalBody._cache[key] = float(val)
        return float(val)

    def smooth(self, x: Any, n: int = 0) -> np.ndarray:
        x = np.asanyarray(x, dtype=float)
        out = np.zeros(x.shape + (2,))
        for idx in np.ndindex(x.shape):
            out[idx + (0,)] = self._one(float(x[idx]), n)
        return out

    def _ref(self, x: float) -> float:
        """the underlying function of the object under test: WallGo's own function
        body (a pure function of x), evaluated on a separate plain instance"""
        key = (self.which, "ref", x)
        hit = ThermalBody._cache.get(key)
        if hit is None:
            if self.refObject is None:
                import WallGo.PotentialTools as pt  # pylint: disable=import-outside-toplevel
                cls = pt.JbIntegral if self.which == "Jb" else pt.JfIntegral
                self.refObject = cls(bUseAdaptiveInterpolation=False)
            hit = float(np.asarray(self.refObject._functionImplementation(x), dtype=float).ravel()[0])
            ThermalBody._cache[key] = hit
        return hit

    def __call__(self, x: Any) -> np.ndarray:
        x = np.asanyarray(x, dtype=float)
        out = np.zeros(x.shape + (2,))
        for idx in np.ndindex(x.shape):
            out[idx + (0,)] = self._ref(float(x[idx]))
        return out

    def glitchy(self, x: Any, halfWidth: float = 0.0) -> np.ndarray:
        """WallGo's quadrature occasionally misses by ~1e-3 at isolated arguments
        (seen: Jb(14.427021442695128), Jf(14.376409587249054); everywhere else it
        agrees with the harness quadrature and with 30-digit mpmath to 1e-13).
        That is a matter of the integrals' accuracy, not of the interpolation
        contract: where it happens, comparisons that differentiate or interpolate
        the underlying function are not judged."""
        x = np.asanyarray(x, dtype=float)
        out = np.zeros(x.shape, dtype=bool)
        offsets = [0.0] if halfWidth == 0 else list(np.linspace(-halfWidth, halfWidth, 9))
        for idx in np.ndindex(x.shape):
            for off in offsets:
                v = float(x[idx]) + off
                if v <= 0:
                    continue
                if abs(self._ref(v) - self._one(v, 0)) > 1e-9:
                    out[idx] = True
                    break
        return out

    def isBad(self, x: Any, pad: float = 0.0) -> np.ndarray:
        x = np.asanyarray(x, dtype=float)
        if pad > 0:
            return self.glitchy(x, pad)
        return np.zeros(x.shape, dtype=bool)

    def bound(self, k: int) -> float:
        return self.BOUNDS[self.which][k]

    def signal(self, order: int) -> float:
        return self.SIGNAL[self.which][order]

    def magnitude(self, x: Any) -> float:
        return 2.0


class FreeEnergyBody:
    """Exact broken-phase minimum and free energy of the Z2 quartic
    V(phi,T) = -a T^4 + (c T^2 - mu^2) phi^2 / 2 + lam phi^4 / 4:
    phi(T) = sqrt((mu^2 - c T^2)/lam),  F(T) = -a T^4 - (mu^2 - c T^2)^2 / (4 lam).
    Return dimension 2: (phi, F), the column order of FreeEnergy's table."""

    MU2, C, LAM, A = 1.0, 0.2, 0.5, 1.0
    #: sup over 0.6 <= T <= 1.7 of |f^(k)| over both components (30-digit mpmath)
    BOUNDS = {2: 35.0, 3: 41.7, 4: 24.5, 5: 74.4, 6: 622.0}
    SIGNAL = {1: 0.17, 2: 0.31}

    def __init__(self) -> None:
        self.R = 2
        self.bad = None
        self.comps = None
        # accuracy of one direct evaluation: scipy.optimize.minimize with default
        # tolerance locates the minimum to ~1e-6 (measured 4e-7), the value far better
        self.noise = 1e-5
        self.domain = (0.6, 1.7)
        self.scale = 10.0
        # the minimiser's 1e-6 noise divided by a small table spacing dominates the
        # spline error: "interpolation accuracy" is not a sharp statement here
        self.accuracyClause = False

    def smooth(self, T: Any, n: int = 0) -> np.ndarray:
        T = np.asanyarray(T, dtype=float)
        u = (self.MU2 - self.C * T * T) / self.LAM
        phi = np.sqrt(u)
        if n == 0:
            cols = [phi, -self.A * T**4 - (self.MU2 - self.C * T * T) ** 2 / (4 * self.LAM)]
        elif n == 1:
            cols = [-self.C * T / (self.LAM * phi),
                    -4 * self.A * T**3 + self.C * T * (self.MU2 - self.C * T * T) / self.LAM]
        elif n == 2:
            cols = [-self.C / (self.LAM * phi) - self.C**2 * T * T / (self.LAM**2 * phi**3),
                    -12 * self.A * T * T + self.C * (self.MU2 - 3 * self.C * T * T) / self.LAM]
        else:
            raise HarnessError("derivative order")
        return np.stack(cols, axis=-1)

    def __call__(self, T: Any) -> np.ndarray:
        return self.smooth(T, 0)

    def isBad(self, x: Any, pad: float = 0.0) -> np.ndarray:
        return np.zeros(np.asanyarray(x).shape, dtype=bool)

    def bound(self, k: int) -> float:
        return self.BOUNDS[k]

    def signal(self, order: int) -> float:
        return self.SIGNAL[order]

    def magnitude(self, x: Any) -> float:
        return 10.0


class Ctl:
    def __init__(self) -> None:
        self.calls = 0
        self.armed: int | None = None
        self.fired = False


def _makeClass(base: type) -> type:
    class SimFunction(base):  # type: ignore[misc,valid-type]
        def __init__(self, body: Body, ctl: Ctl, adaptive: bool, n0: int):
            super().__init__(bUseAdaptiveInterpolation=adaptive,
                             initialInterpolationPointCount=n0,
                             returnValueCount=body.R)
            self.simBody = body
            self.simCtl = ctl

        def _functionImplementation(self, x: Any) -> Any:
            ctl = self.simCtl
            ctl.calls += 1
            if ctl.armed is not None:
                ctl.armed -= 1
                if ctl.armed <= 0:
                    ctl.armed = None
                    ctl.fired = True
                    raise InjectedFault("injected: function body raised")
            return self.simBody(x)

    return SimFunction


def _makeThermalClass(base: type) -> type:
    """the real JbIntegral / JfIntegral with only the fault seam added"""

    class SimThermal(base):  # type: ignore[misc,valid-type]
        def __init__(self, body: Any, ctl: Ctl, adaptive: bool, n0: int):
            super().__init__(bUseAdaptiveInterpolation=adaptive,
                             initialInterpolationPointCount=n0)
            self.simCtl = ctl

        def _functionImplementation(self, x: Any) -> Any:
            ctl = self.simCtl
            ctl.calls += 1
            if ctl.armed is not None:
                ctl.armed -= 1
                if ctl.armed <= 0:
                    ctl.armed = None
                    ctl.fired = True
                    raise InjectedFault("injected: function body raised")
            return super()._functionImplementation(x)

    return SimThermal


def _makeFreeEnergyClasses(WallGo: Any) -> tuple:
    """the real FreeEnergy on an analytic potential, with only the fault seam added"""

    class Z2Potential(WallGo.EffectivePotential):
        fieldCount = 1
        effectivePotentialError = 1e-16

        def evaluate(self, fields: Any, temperature: Any) -> Any:
            phi = WallGo.Fields(fields).getField(0)
            T = np.asarray(temperature)
            b = FreeEnergyBody
            return np.array(-b.A * T**4 + 0.5 * (b.C * T * T - b.MU2) * phi**2
                            + 0.25 * b.LAM * phi**4)

    class SimFreeEnergy(WallGo.FreeEnergy):
        def __init__(self, body: Any, ctl: Ctl, adaptive: bool, n0: int):
            pot = Z2Potential()
            pot.configureDerivatives(WallGo.VeffDerivativeSettings(
                temperatureVariationScale=1.0, fieldValueVariationScale=[1.0]))
            super().__init__(pot, 1.0, WallGo.Fields([1.2]), initialInterpolationPointCount=n0)
            if adaptive:
                self.enableAdaptiveInterpolation()
            else:
                self.disableAdaptiveInterpolation()
            self.simCtl = ctl

        def _functionImplementation(self, temperature: Any) -> Any:
            ctl = self.simCtl
            ctl.calls += 1
            if ctl.armed is not None:
                ctl.armed -= 1
                if ctl.armed <= 0:
                    ctl.armed = None
                    ctl.fired = True
                    raise InjectedFault("injected: function body raised")
            return super()._functionImplementation(temperature)

    return Z2Potential, SimFreeEnergy


class _NpProxy:
    """stands in for the module global `np` of WallGo.interpolatableFunction:
    forwards everything, owns the two text-I/O entry points"""

    def __init__(self, real: Any, machine: "InterpMachine"):
        object.__setattr__(self, "_real", real)
        object.__setattr__(self, "_machine", machine)

    def __getattr__(self, name: str) -> Any:
        return getattr(object.__getattribute__(self, "_real"), name)

    def savetxt(self, fname: Any, X: Any, *args: Any, **kwargs: Any) -> Any:
        real = object.__getattribute__(self, "_real")
        machine = object.__getattribute__(self, "_machine")
        if isinstance(fname, str) and fname == CAPTURE:
            machine.captured = real.array(X, dtype=float, copy=True)
            return None
        return real.savetxt(fname, X, *args, **kwargs)

    def genfromtxt(self, fname: Any, *args: Any, **kwargs: Any) -> Any:
        real = object.__getattribute__(self, "_real")
        return real.genfromtxt(fname, *args, **kwargs)


class _Column:
    """a scalar-valued spline presented with a trailing component axis of length 1"""

    def __init__(self, inner: Any):
        self.inner = inner
        self.c = inner.c

    def __call__(self, x: Any) -> np.ndarray:
        return np.asarray(self.inner(x))[..., None]

    def derivative(self, n: int) -> "_Column":
        return _Column(self.inner.derivative(n))


class Table:
    def __init__(self, xs: np.ndarray, vals: np.ndarray):
        self.xs = xs
        self.vals = vals  # (n, R)
        self.lo = float(xs[0]) if xs.size else float("nan")
        self.hi = float(xs[-1]) if xs.size else float("nan")
        self.spline = None
        if xs.size >= 2 and np.all(np.diff(xs) > 0):
            if vals.shape[1] == 1:
                # one-dimensional ordinates, exactly as WallGo passes them for a
                # scalar-valued function (same code path inside scipy)
                inner = CubicSpline(xs, vals[:, 0], axis=0, extrapolate=True)
                self.spline = _Column(inner)
            else:
                self.spline = CubicSpline(xs, vals, axis=0, extrapolate=True)

    def same(self, other: "Table | None") -> bool:
        return (other is not None and self.xs.shape == other.xs.shape
                and np.array_equal(self.xs, other.xs) and np.array_equal(self.vals, other.vals))


def _logu(rng: random.Random, lo: float, hi: float) -> float:
    return 10 ** rng.uniform(math.log10(lo), math.log10(hi))


class InterpMachine(Machine):
    PROP = "C18"
    MAX_STEPS = 24
    MUTATORS = frozenset({"new_table", "extend", "set_modes", "adaptive", "schedule",
                          "write_read", "evaluate", "derivative", "table_from_values"})
    OBSERVERS = frozenset({"evaluate", "derivative", "write_read"})
    RULE = (
        "one history = one InterpolatableFunction subclass instance (87%: harness subclass, "
        "return dimension 1..4, exact analytic body, optionally non-finite on an interval; "
        "8%: the real JbIntegral/JfIntegral against the harness's own quadrature; 5%: the "
        "real FreeEnergy on an analytic Z2 quartic with closed-form minimum, table built by "
        "tracePhase; all optionally raising at the k-th call of an armed step) driven "
        "through up to 24 steps from "
        "{new_table, evaluate, derivative, extend, set_modes, adaptive on/off, schedule, "
        "write_read (same or fresh instance), read_missing, arm_raise}; inputs are python "
        "floats, 0-d, list, 1-D, 2-D and empty arrays placed inside / below / above / "
        "mixed / exactly on / just outside the table range. After every step the table "
        "invariants are checked; every evaluate/derivative result is compared element by "
        "element with the contract model. distinct = sha256 of (config, step list); "
        "non-trivial = a state-mutating step followed by a checked evaluation."
    )
    ABSTRACTION = ("(has table, lower mode, upper mode, adaptive on, table size bucket, R, "
                   "bad interval overlaps table)")
    COMPONENTS_REAL = ["WallGo.InterpolatableFunction", "WallGo.helpers.derivative",
                       "WallGo.FreeEnergy (+ EffectivePotential.findLocalMinimum, tracePhase) in "
                       "5% of the runs", "WallGo.PotentialTools.JbIntegral / JfIntegral in 8% of "
                       "the runs", "scipy.interpolate.CubicSpline",
                       "numpy text I/O on scratch files"]
    COMPONENTS_STUB = ["analytic function bodies (sine + linear, exact derivatives known)",
                       "np.savetxt capture seam used to observe the current table through "
                       "the public writeInterpolationTable"]
    ASSUMPTIONS = [
        "function bodies are smooth sine+linear combinations with |x| <= 60; NaN/inf inputs "
        "are not generated",
        "scipy CubicSpline (not-a-knot) is trusted as the spline of the contract model; the "
        "accuracy clause is checked against the exact function independently of it",
        "placement of points added by extensions / adaptive updates is implementation "
        "freedom and is not modelled; only the table invariants and the requested coverage "
        "are required",
    ]
    REQUIRED_REACH = {
        "quick": {"faultFired": ["function_nonfinite", "function_raises", "read_missing_table"],
                  "probes": ["adaptive_update_happened", "eval_mixed", "derivative_mixed",
                             "roundtrip_fresh", "R1_outside_nontrivial_mode",
                             "derivative_near_boundary"]},
    }
    REQUIRED_REACH["thorough"] = REQUIRED_REACH["quick"]
    OPS = ("new_table", "evaluate", "derivative", "extend", "set_modes", "adaptive",
           "schedule", "write_read", "read_missing", "arm_raise", "table_from_values")
    POSSIBLE_BIGRAMS = len(OPS) * (len(OPS) + 1)

    # ------------------------------------------------------------------ config
    @staticmethod
    def drawConfig(rng: random.Random, tier: str) -> dict:
        provider = "stub"
        roll = rng.random()
        if roll < 0.04:
            provider = "Jb"
        elif roll < 0.08:
            provider = "Jf"
        elif roll < 0.13:
            provider = "FreeEnergy"
        R = rng.choice([1, 1, 2, 3, 4]) if provider == "stub" else 2
        comps = []
        for _ in range(R):
            A = rng.uniform(0.5, 2.0)
            comps.append([A, rng.uniform(0.5, 2.0), rng.uniform(0, 6.28),
                          A * rng.uniform(-0.2, 0.2), A * rng.uniform(-1, 1)])
        bad = None
        if provider == "stub" and rng.random() < 0.4:
            lo = rng.uniform(-8, 8)
            bad = {"lo": lo, "hi": lo + _logu(rng, 0.05, 3.0),
                   "comp": rng.choice([-1] + list(range(R))),
                   "kind": rng.choice(["nan", "nan", "inf"])}
        weights = {op: rng.choice([0, 1, 2, 3]) for op in InterpMachine.OPS}
        weights["evaluate"] = rng.choice([2, 3, 5])
        weights["derivative"] = rng.choice([0, 1, 3])
        focus = "midcall" if rng.random() < 0.25 else None
        if focus:
            # swarm: a quarter of the runs concentrate on adaptive updates that
            # fire in the middle of a call with one NONE side
            weights.update(evaluate=6, set_modes=2, adaptive=1, schedule=2, derivative=4,
                           new_table=1, extend=1, write_read=0, read_missing=0, arm_raise=0)
        return {
            "R": R, "comps": comps, "bad": bad, "focus": focus, "provider": provider,
            "adaptive": True if focus else rng.random() < 0.6,
            "threshold": rng.choice([2, 3, 5, 8]) if focus else
            rng.choice([1, 2, 3, 5, 8, 15, 40, 500]),
            "n0": rng.choice([4, 5, 6, 10, 15, 25, 60]),
            "weights": weights,
            "tableFirst": rng.random() < 0.7,
        }

    @staticmethod
    def simplerConfigs(cfg: dict):
        if cfg["bad"] is not None:
            yield dict(cfg, bad=None)
        if cfg["R"] > 1:
            yield dict(cfg, R=1, comps=cfg["comps"][:1],
                       bad=None if cfg["bad"] is None else dict(cfg["bad"], comp=-1))
            yield dict(cfg, R=2, comps=cfg["comps"][:2],
                       bad=None if cfg["bad"] is None else dict(cfg["bad"], comp=-1))
        if cfg["adaptive"]:
            yield dict(cfg, adaptive=False)
        if cfg["comps"][0] != [1.0, 1.0, 0.0, 0.0, 0.0]:
            yield dict(cfg, comps=[[1.0, 1.0 + 0.1 * j, 0.0, 0.0, 0.0]
                                   for j in range(cfg["R"])])

    # ------------------------------------------------------------------ set-up
    def __init__(self, cfg: dict, ctx: Ctx):
        super().__init__(cfg, ctx)
        import WallGo  # pylint: disable=import-outside-toplevel
        import WallGo.interpolatableFunction as mod  # pylint: disable=import-outside-toplevel
        self.WallGo = WallGo
        self.mod = mod
        self.E = WallGo.EExtrapolationType
        self.provider = cfg.get("provider", "stub")
        self.ctl = Ctl()
        if self.provider == "stub":
            self.body: Any = Body(cfg["comps"], cfg["bad"])
            self.cls = _makeClass(WallGo.InterpolatableFunction)
        elif self.provider == "FreeEnergy":
            self.body = FreeEnergyBody()
            self.cls = _makeFreeEnergyClasses(WallGo)[1]
            ctx.probes["real_subclass_FreeEnergy"] += 1
        else:
            import WallGo.PotentialTools as pt  # pylint: disable=import-outside-toplevel
            self.body = ThermalBody(self.provider)
            self.cls = _makeThermalClass(pt.JbIntegral if self.provider == "Jb"
                                         else pt.JfIntegral)
            ctx.probes[f"real_subclass_{self.provider}"] += 1
        self.R = self.body.R
        self.captured: np.ndarray | None = None
        self._realNp = mod.np
        if isinstance(self._realNp, _NpProxy):  # a previous run did not clean up
            self._realNp = object.__getattribute__(self._realNp, "_real")
        mod.np = _NpProxy(self._realNp, self)
        self.obj = self._newObject(cfg["adaptive"])
        self.modes = ["ERROR", "ERROR"] if self.provider == "FreeEnergy" else ["NONE", "NONE"]
        self.adaptive = cfg["adaptive"]
        self.nFiles = 0
        self.justUpdated = False
        self.traced = False
        self.buffers: dict = {}
        self.lastQuestion: dict | None = None
        self.prevOp = "-"
        self.handedOut: tuple | None = None
        self.callerBuffers: list = []

    def _newObject(self, adaptive: bool) -> Any:
        obj = self.cls(self.body, self.ctl, adaptive, self.cfg["n0"])
        if hasattr(obj, "_evaluationsUntilAdaptiveUpdate"):
            obj._evaluationsUntilAdaptiveUpdate = self.cfg["threshold"]
        return obj

    def close(self) -> None:
        self.mod.np = self._realNp

    # ------------------------------------------------------------------ observation
    def table(self) -> Table | None:
        obj = self.obj
        if not obj.hasInterpolation():
            return None
        self.captured = None
        obj.writeInterpolationTable(CAPTURE)
        arr = self.captured
        if arr is None:
            xs = np.array(getattr(obj, "_interpolationPoints"), dtype=float)
            vals = np.array(getattr(obj, "_interpolationValues"), dtype=float)
            arr = np.column_stack((xs, vals))
        if arr.ndim != 2 or arr.shape[1] != self.R + 1:
            raise Violation("table-shape", f"R={min(self.R, 2)}",
                            f"table handed to savetxt has shape {arr.shape}, expected "
                            f"(n, {self.R + 1})")
        return Table(arr[:, 0].copy(), arr[:, 1:].copy())

    # ------------------------------------------------------------------ generator
    def _range(self) -> tuple[float, float] | None:
        if not self.obj.hasInterpolation():
            return None
        return float(self.obj.interpolationRangeMin()), float(self.obj.interpolationRangeMax())

    def _clip(self, v: float) -> float:
        dlo, dhi = self.body.domain
        return min(max(v, dlo), dhi)

    def _drawPoint(self, rng: random.Random, where: str, order: int = 1) -> float:
        return self._clip(self._drawPointRaw(rng, where, order))

    def _drawPointRaw(self, rng: random.Random, where: str, order: int = 1) -> float:
        rg = self._range()
        if rg is None:
            return rng.uniform(max(-10.0, self.body.domain[0]), min(10.0, self.body.domain[1]))
        lo, hi = rg
        span = max(hi - lo, 1e-3)
        if where == "inside":
            return rng.uniform(lo, hi)
        if where == "below":
            return lo - span * _logu(rng, 0.01, 1.0)
        if where == "above":
            return hi + span * _logu(rng, 0.01, 1.0)
        if where == "boundary":
            return rng.choice([lo, hi])
        if where == "near_out":
            d = DX[order] * rng.choice([0.3, 0.9, 1.5, 2.5])
            return rng.choice([lo - d, hi + d])
        if where == "near_in":
            d = DX[order] * rng.choice([0.3, 1.5])
            return rng.choice([lo + d, hi - d])
        if where == "knot":
            return lo + span * rng.choice([0.0, 0.25, 0.5, 1.0])
        raise HarnessError(where)

    def _drawX(self, rng: random.Random, order: int = 1) -> tuple[str, Any, str]:
        form = rng.choice(["float", "0d", "list", "1d", "1d", "2d", "empty"]
                          if rng.random() < 0.15 else ["float", "0d", "list", "1d", "1d", "2d"])
        if self.cfg.get("focus") and self._range() is not None and rng.random() < 0.35:
            # mid-call focus: far-out direct evaluations build up pending points on one
            # side; a later two-sided call then triggers the update on the other side
            lo, hi = self._range()
            span = max(hi - lo, 1e-3)
            kind = rng.choice(["far_above", "far_below", "two_sided", "two_sided"])
            if kind == "far_above":
                pts = [self._clip(hi + span * rng.uniform(0.5, 1.5)) for _ in range(2)]
            elif kind == "far_below":
                pts = [self._clip(lo - span * rng.uniform(0.5, 1.5)) for _ in range(2)]
            else:
                pts = [self._clip(lo - span * rng.uniform(0.02, 0.4)),
                       self._clip(hi + span * rng.uniform(0.02, 0.4))]
                if rng.random() < 0.5:
                    pts.reverse()
            return "1d", pts, kind
        if self.provider == "FreeEnergy" and form in ("2d", "empty"):
            form = "1d"  # FreeEnergy documents temperatures as a float or a 1-D array
        place = rng.choice(["inside", "below", "above", "mixed", "mixed", "edge"])
        if self.justUpdated:
            place = rng.choice(["below", "above", "mixed", "edge"])

        def one() -> float:
            if place == "mixed":
                return self._drawPoint(rng, rng.choice(["inside", "below", "above", "inside"]),
                                       order)
            if place == "edge":
                return self._drawPoint(rng, rng.choice(["boundary", "near_out", "near_in",
                                                        "knot"]), order)
            return self._drawPoint(rng, place, order)

        if form == "1d" and self.provider == "stub" and rng.random() < 0.04:
            # a large unsorted array, described by its seed (kept out of the log)
            return "big", {"n": rng.choice([1000, 1500, 3000]), "seed": rng.randrange(10**6),
                           "lo": self._drawPoint(rng, "below" if place != "inside" else "inside"),
                           "hi": self._drawPoint(rng, "above" if place != "inside" else "inside")}, place
        if form in ("list", "1d") and rng.random() < 0.08:
            # integer-typed abscissae (a python int, a list of ints, an int array)
            rg = self._range() or (-5.0, 5.0)
            lo, hi = int(math.floor(rg[0])) - 3, int(math.ceil(rg[1])) + 3
            lo = max(lo, int(math.ceil(self.body.domain[0])))
            hi = min(hi, int(math.floor(self.body.domain[1])))
            if hi >= lo:
                vals = [rng.randint(lo, hi) for _ in range(rng.choice([1, 2, 4]))]
                return rng.choice(["ints", "intarray", "int"]), \
                    (vals[0] if len(vals) == 1 else vals), place
        if form in ("float", "0d"):
            return form, one(), place
        if form == "empty":
            return form, [], place
        if form in ("list", "1d"):
            return form, [one() for _ in range(rng.choice([1, 2, 3, 6]))], place
        rows, cols = rng.choice([(1, 1), (2, 2), (2, 3), (3, 1)])
        return form, [[one() for _ in range(cols)] for _ in range(rows)], place

    def nextStep(self, rng: random.Random, index: int) -> dict | None:
        cfg = self.cfg
        if index == 0 and cfg["tableFirst"]:
            op = "new_table"
        else:
            ops = []
            for name in self.OPS:
                ops += [name] * cfg["weights"][name]
            op = rng.choice(ops)
            if self.justUpdated and rng.random() < 0.6:
                # look at the object right after an adaptive update
                op = rng.choice(["evaluate", "evaluate", "derivative"])
            if self.lastQuestion is not None and self.prevOp in (
                    "set_modes", "extend", "new_table", "write_read", "adaptive", "schedule",
                    "read_missing") and rng.random() < 0.3:
                # perturb, then ask exactly the same question again
                self.ctx.probes["question_repeated_after_perturbation"] += 1
                return dict(self.lastQuestion)
        if op == "new_table":
            if self.provider == "FreeEnergy":
                if not self.traced and rng.random() < 0.8:
                    return {"op": op, "trace": True, "a": rng.uniform(0.6, 0.95),
                            "b": rng.uniform(1.05, 1.7), "dT": rng.choice([0.02, 0.05, 0.1]),
                            "n": 0}
                a = rng.uniform(0.6, 1.3)
                return {"op": op, "a": a, "b": self._clip(a + rng.uniform(0.2, 1.0)),
                        "n": rng.choice([3, 5, 8, 12])}
            a = rng.uniform(max(-10.0, self.body.domain[0]), 8)
            return {"op": op, "a": a, "b": self._clip(a + _logu(rng, 0.5, 10.0)),
                    "n": rng.choice([2, 3, 4, 5, 8, 12, 20, 40])}
        if op == "table_from_values":
            a = rng.uniform(max(-10.0, self.body.domain[0]), 8)
            return {"op": op, "a": a, "b": self._clip(a + _logu(rng, 0.5, 10.0)),
                    "n": rng.choice([3, 5, 8, 12, 20])}
        if op == "evaluate":
            form, x, place = self._drawX(rng)
            step = {"op": op, "form": form, "x": x, "place": place,
                    "interp": rng.random() < 0.85}
            if form in ("1d", "2d") and rng.random() < 0.3:
                # the caller keeps ONE ndarray and overwrites it in place between calls
                step["reuse"] = True
            return step
        if op == "derivative":
            order = rng.choice([1, 2])
            form, x, place = self._drawX(rng, order)
            interp = rng.random() < 0.85
            if self.provider == "FreeEnergy" and form in ("ints", "intarray", "int"):
                form, x = "float", float(x[0] if isinstance(x, list) else x)
            if self.provider == "FreeEnergy" and form not in ("float", "0d"):
                # FreeEnergy's function body takes a scalar or 1-D temperature; the
                # finite-difference path stacks stencil points on a new axis, so
                # without interpolation it is only defined for scalar input
                interp = True
                if not self.obj.hasInterpolation():
                    first = x[0] if isinstance(x, list) and x else (
                        x if isinstance(x, (int, float)) else 1.0)
                    form, x = "float", float(first)
            return {"op": op, "form": form, "x": x, "place": place, "order": order,
                    "interp": interp}
        if op == "extend":
            rg = self._range() or (rng.uniform(-10, 0), rng.uniform(0.5, 10))
            lo, hi = rg
            span = max(hi - lo, 1e-3)
            kind = rng.choice(["both", "lower", "upper", "inside", "both"])
            newMin = lo - span * _logu(rng, 0.01, 1.0) if kind in ("both", "lower") \
                else lo + span * rng.uniform(0, 0.3)
            newMax = hi + span * _logu(rng, 0.01, 1.0) if kind in ("both", "upper") \
                else hi - span * rng.uniform(0, 0.3)
            return {"op": op, "newMin": self._clip(newMin), "newMax": self._clip(newMax),
                    "pMin": rng.choice([0, 1, 2, 3, 5, 10]),
                    "pMax": rng.choice([0, 1, 2, 3, 5, 10])}
        if op == "set_modes":
            if cfg.get("focus"):
                lower, upper = rng.choice([("NONE", "CONSTANT"), ("CONSTANT", "NONE"),
                                           ("NONE", "FUNCTION"), ("FUNCTION", "NONE"),
                                           ("NONE", "NONE"), ("NONE", "ERROR")])
                return {"op": op, "lower": lower, "upper": upper}
            return {"op": op, "lower": rng.choice(MODES), "upper": rng.choice(MODES)}
        if op == "adaptive":
            return {"op": op, "on": True if cfg.get("focus") else rng.random() < 0.6}
        if op == "schedule":
            form, x, place = self._drawX(rng)
            return {"op": op, "form": form, "x": x, "place": place}
        if op == "write_read":
            return {"op": op, "target": rng.choice(["same", "fresh"]),
                    "samePath": rng.random() < 0.5,
                    "lower": rng.choice(MODES), "upper": rng.choice(MODES),
                    "probe": [rng.random() for _ in range(4)]}
        if op == "read_missing":
            return {"op": op}
        if op == "arm_raise":
            return {"op": op, "k": rng.choice([1, 1, 2, 3])}
        raise HarnessError(op)

    def simplerSteps(self, step: dict):
        op = step["op"]
        if op in ("evaluate", "derivative", "schedule") and step["form"] not in (
                "big", "ints", "intarray", "int"):
            x = step["x"]
            if step["form"] == "2d":
                flat = [v for row in x for v in row]
                yield dict(step, form="1d", x=flat)
            if step["form"] in ("list", "1d") and len(x) > 1:
                for i in range(len(x)):
                    yield dict(step, x=x[:i] + x[i + 1:])
            if step["form"] in ("list", "1d") and len(x) == 1:
                yield dict(step, form="float", x=x[0])
            if step["form"] == "0d":
                yield dict(step, form="float")
            if step["form"] == "list":
                yield dict(step, form="1d")
            if not step.get("interp", True):
                yield dict(step, interp=True)
        if op == "extend":
            for key in ("pMin", "pMax"):
                if step[key] > 1:
                    yield dict(step, **{key: 1})
        if op == "new_table" and step["n"] > 4:
            yield dict(step, n=4)
        if op in ("set_modes", "write_read"):
            for side in ("lower", "upper"):
                if step[side] != "NONE":
                    yield dict(step, **{side: "NONE"})

    # ------------------------------------------------------------------ interpreter
    def execute(self, step: dict) -> Any:
        op = step["op"]
        self.prevOp = op
        if op in ("evaluate", "derivative") and step.get("form") != "big":
            self.lastQuestion = {k: v for k, v in step.items() if k != "reuse"}
        self.ctl.calls = 0
        self.ctl.fired = False
        self._checkHandedOut(op)
        before = self.table()
        with warnings.catch_warnings():
            warnings.simplefilter("ignore")
            with np.errstate(all="ignore"):
                handler = getattr(self, "_op_" + op, None)
                if handler is None:
                    raise HarnessError(f"unknown op {op}")
                try:
                    obs = handler(step, before)
                finally:
                    if op != "arm_raise":
                        self.ctl.armed = None
                if self.ctl.fired:
                    self.ctx.faultFired["function_raises"] += 1
                after = self.table()
                self._invariants(after, step)
        return obs

    # -- helpers
    def _handOut(self, res: Any) -> None:
        """remember the array OBJECT given to the caller and its contents"""
        if isinstance(res, np.ndarray) and res.size:
            self.handedOut = (res, res.copy())

    def _checkHandedOut(self, laterOp: str) -> None:
        """a returned array is the caller's: later calls must not change it"""
        if self.handedOut is None:
            return
        obj, was = self.handedOut
        self.ctx.checks["earlier_result_unchanged"] += 1
        if obj.shape != was.shape or not np.array_equal(obj, was, equal_nan=True):
            self.handedOut = None
            raise Violation("result-aliasing", "returned-array-changed-by-later-call",
                            "an array returned by an earlier evaluate/derivative call changed "
                            f"during a later call (seen before {laterOp}): the result shares "
                            "memory with the object's internals")

    def _x(self, step: dict) -> Any:
        form, x = step["form"], step["x"]
        if form == "big":
            rng = np.random.default_rng(int(x["seed"]))
            lo, hi = sorted((float(x["lo"]), float(x["hi"])))
            return rng.uniform(lo, hi if hi > lo else lo + 1.0, int(x["n"]))
        if form in ("ints", "intarray", "int"):
            self.ctx.probes["integer_typed_input"] += 1
            vals = x if isinstance(x, list) else [x]
            if form == "int" or (form == "ints" and not isinstance(x, list)):
                return int(vals[0])
            if form == "ints":
                return [int(v) for v in vals]
            return np.array([int(v) for v in vals], dtype=np.int64)
        if step.get("reuse") and form in ("1d", "2d"):
            new = np.array(x, dtype=float)
            buf = self.buffers.get(new.shape)
            if buf is None:
                self.buffers[new.shape] = new
                return new
            buf[...] = new  # same object, new contents
            self.ctx.probes["caller_array_overwritten_in_place"] += 1
            return buf
        if form == "float":
            return float(x)
        if form == "0d":
            return np.array(float(x))
        if form == "list":
            return [float(v) for v in x]
        if form == "empty":
            return np.array([], dtype=float)
        return np.array(x, dtype=float)

    def _mode(self, name: str) -> Any:
        return getattr(self.E, name)

    def _call(self, what: str, fn: Any, faultTolerant: bool = True) -> tuple[str, Any]:
        """run an API call; classify the outcome"""
        try:
            return "ok", fn()
        except InjectedFault:
            return "injected", None
        except Exception as exc:  # pylint: disable=broad-except
            if self.ctl.fired:
                return "injected", None
            return "raised", exc

    # -- ops
    def _op_arm_raise(self, step: dict, before: Table | None) -> Any:
        self.ctl.armed = int(step["k"])
        return ["armed", step["k"]]

    def _op_adaptive(self, step: dict, before: Table | None) -> Any:
        if step["on"]:
            self.obj.enableAdaptiveInterpolation()
        else:
            self.obj.disableAdaptiveInterpolation()
        self.adaptive = bool(step["on"])
        return ["adaptive", self.adaptive]

    def _op_set_modes(self, step: dict, before: Table | None) -> Any:
        status, res = self._call("setExtrapolationType", lambda: self.obj.setExtrapolationType(
            self._mode(step["lower"]), self._mode(step["upper"])))
        if status == "raised":
            raise Violation("set-modes-raised", type(res).__name__,
                            f"setExtrapolationType raised {type(res).__name__}: {res}")
        self.modes = [step["lower"], step["upper"]]
        after = self.table()
        if before is not None and not before.same(after):
            raise Violation("table-changed", "set_modes",
                            "changing the extrapolation modes changed the table contents")
        return ["modes"] + self.modes

    def _validCount(self, xs: np.ndarray) -> int:
        vals = np.atleast_2d(self.body(xs).reshape(xs.size, self.R))
        return int(np.sum(np.all(np.isfinite(vals), axis=1)))

    def _op_trace(self, step: dict, before: Table | None) -> Any:
        """FreeEnergy.tracePhase builds the table (the way users get one)"""
        a, b, dT = float(step["a"]), float(step["b"]), float(step["dT"])
        if not hasattr(self.obj, "tracePhase") or not a < 1.0 < b or self.traced \
                or b - a < 8 * dT:
            raise Skip()  # one trace per object: every trace narrows the allowed range
        self.traced = True
        status, res = self._call("tracePhase",
                                 lambda: self.obj.tracePhase(a, b, dT, rTol=1e-8))
        after = self.table()
        if status == "injected":
            return ["trace", "injected"]
        if status == "raised":
            raise Violation("table-build", f"tracePhase-raised:{type(res).__name__}",
                            f"tracePhase({a}, {b}, {dT}) raised {type(res).__name__}: {res}")
        if after is None or after.xs.size < 2:
            raise Violation("table-build", "tracePhase-no-table", "tracePhase built no table")
        self.ctx.probes["table_built_by_tracePhase"] += 1
        return ["trace", int(after.xs.size)]

    def _op_new_table(self, step: dict, before: Table | None) -> Any:
        if step.get("trace"):
            return self._op_trace(step, before)
        a, b, n = float(step["a"]), float(step["b"]), int(step["n"])
        if not (b > a and n >= 2):
            raise Skip()
        xs = np.linspace(a, b, n)
        vals = self.body(xs).reshape(n, self.R)
        keep = np.all(np.isfinite(vals), axis=1)
        nBad = int(n - np.sum(keep))
        status, res = self._call("newInterpolationTable",
                                 lambda: self.obj.newInterpolationTable(a, b, n))
        if nBad:
            self.ctx.faultFired["function_nonfinite"] += 1
        after = self.table()
        if status == "injected":
            self._unchanged(before, after, "new_table interrupted by a raising function")
            return ["new_table", "injected"]
        if int(np.sum(keep)) < 2:
            # no table can be built from fewer than two valid points
            if status == "ok":
                raise Violation("table-build", "built-from-<2-valid-points",
                                f"a table was built although only {int(np.sum(keep))} "
                                "abscissae have finite values")
            self._unchanged(before, after, "failed new_table")
            return ["new_table", "too-few-valid"]
        if status == "raised":
            raise Violation(
                "table-build", f"raised:{type(res).__name__}:R={min(self.R, 2)}:"
                f"{'nonfinite' if nBad else 'finite'}",
                f"newInterpolationTable({a}, {b}, {n}) raised {type(res).__name__}: {res} "
                f"({nBad} of {n} abscissae have non-finite values and must be left out "
                "individually)")
        want = xs[keep]
        if after is None or after.xs.shape != want.shape or not np.array_equal(after.xs, want):
            got = None if after is None else after.xs.size
            raise Violation(
                "nonfinite-rows", f"new_table:R={min(self.R, 2)}",
                f"table holds {got} abscissae; expected exactly the {want.size} of {n} "
                "linspace points where every component is finite")
        return ["new_table", int(want.size)]

    def _op_table_from_values(self, step: dict, before: Table | None) -> Any:
        """newInterpolationTableFromValues with arrays the CALLER owns: the caller's
        previous buffers are overwritten first (a loop that refills its work arrays),
        then new ones are handed over"""
        a, b, n = float(step["a"]), float(step["b"]), int(step["n"])
        if not (b > a and n >= 2) or self.provider == "FreeEnergy":
            raise Skip()
        for buf in self.callerBuffers:
            buf[...] = -7.25  # the caller reuses its old work arrays
        if self.callerBuffers:
            self.ctx.probes["caller_overwrote_arrays_given_to_table"] += 1
        xs = np.linspace(a, b, n)
        fx = np.array(self.body(xs), dtype=float)
        keep = np.all(np.isfinite(fx.reshape(n, self.R)), axis=1)
        self.callerBuffers = [xs, fx]
        want = xs[keep].copy()
        status, res = self._call("newInterpolationTableFromValues",
                                 lambda: self.obj.newInterpolationTableFromValues(xs, fx))
        after = self.table()
        if status == "injected":
            return ["table_from_values", "injected"]
        if int(np.sum(keep)) < 2:
            if status == "ok":
                raise Violation("table-build", "built-from-<2-valid-points",
                                "a table was built from fewer than two finite rows")
            self._unchanged(before, after, "failed table_from_values")
            return ["table_from_values", "too-few-valid"]
        if status == "raised":
            raise Violation("table-build", f"from-values-raised:{type(res).__name__}",
                            f"newInterpolationTableFromValues raised {type(res).__name__}: {res}")
        if after is None or after.xs.shape != want.shape or not np.array_equal(after.xs, want):
            raise Violation("nonfinite-rows", f"from_values:R={min(self.R, 2)}",
                            "table built from values does not hold exactly the finite rows")
        return ["table_from_values", int(want.size)]

    def _unchanged(self, before: Table | None, after: Table | None, why: str) -> None:
        if (before is None) != (after is None) or (before is not None and not before.same(after)):
            raise Violation("table-changed", "after-failed-operation",
                            f"the table changed although the operation failed ({why})")

    def _op_extend(self, step: dict, before: Table | None) -> Any:
        newMin, newMax = float(step["newMin"]), float(step["newMax"])
        pMin, pMax = int(step["pMin"]), int(step["pMax"])
        if before is None:
            if not (newMax > newMin and pMin + pMax >= 2):
                raise Skip()
        status, res = self._call("extendInterpolationTable",
                                 lambda: self.obj.extendInterpolationTable(
                                     newMin, newMax, pMin, pMax))
        after = self.table()
        if status == "injected":
            self._unchanged(before, after, "extend interrupted by a raising function")
            return ["extend", "injected"]
        if before is None:
            n = pMin + pMax
            if self._validCount(np.linspace(newMin, newMax, n)) < 2:
                if status == "ok" and after is not None:
                    raise Violation("table-build", "built-from-<2-valid-points",
                                    "extend without a table built one from <2 valid points")
                return ["extend", "too-few-valid"]
            if status == "raised":
                raise Violation("extend-raised", f"no-table:{type(res).__name__}",
                                f"extendInterpolationTable without a table raised "
                                f"{type(res).__name__}: {res}")
            return ["extend", "created", after.xs.size if after else 0]
        if status == "raised":
            raise Violation(
                "extend-raised", f"{type(res).__name__}",
                f"extendInterpolationTable({newMin}, {newMax}, {pMin}, {pMax}) on a table over "
                f"[{before.lo}, {before.hi}] raised {type(res).__name__}: {res}")
        if after is None:
            raise Violation("extend", "table-lost", "table disappeared in an extension")
        self._checkExtension(before, after, newMin, newMax, pMin, pMax, "extend")
        return ["extend", after.xs.size]

    def _checkExtension(self, before: Table, after: Table, newMin: float, newMax: float,
                        pMin: int, pMax: int, what: str) -> None:
        """old points retained in place, new points only outside the old range,
        requested ends reached to within one spacing, non-finite points left out
        individually (not wholesale)"""
        self.ctx.checks["extension"] += 1
        inOld = (after.xs >= before.lo) & (after.xs <= before.hi)
        if not (np.array_equal(after.xs[inOld], before.xs)
                and np.array_equal(after.vals[inOld], before.vals)):
            raise Violation("extension", f"{what}:old-points-not-retained",
                            "abscissae/values of the old table are not retained unchanged "
                            "inside the old range after an extension")
        if after.lo > before.lo or after.hi < before.hi:
            raise Violation("extension", f"{what}:range-shrunk", "an extension shrank the range")
        for side, req, old, pts in (("lower", newMin, before.lo, pMin),
                                    ("upper", newMax, before.hi, pMax)):
            wants = (req < old if side == "lower" else req > old) and pts > 0
            new = after.xs[after.xs < before.lo] if side == "lower" \
                else after.xs[after.xs > before.hi]
            if wants and abs(req - old) <= 1e-6 * (before.hi - before.lo):
                # a request that exceeds the range by next to nothing may be
                # honoured or ignored (points a few ulp apart would ruin the spline)
                self.ctx.probes["extension_within_rounding_of_range"] += 1
                continue
            if not wants:
                if new.size:
                    raise Violation("extension", f"{what}:unrequested-points",
                                    f"{new.size} points were added on the {side} side although "
                                    "no extension was requested there")
                continue
            spacing = abs(old - req) / pts
            # windows of two spacings that are clear of the non-finite interval
            # must each contain a new abscissa: bad points are dropped one by one
            edges = np.linspace(min(req, old), max(req, old), pts + 1)
            for k in range(0, pts - 1):
                wlo, whi = edges[k], edges[k + 2]
                pad = 1e-9 * (abs(wlo) + abs(whi) + spacing)
                if self.body.bad is not None and not (
                        whi < self.body.bad["lo"] or wlo > self.body.bad["hi"]):
                    continue
                if not np.any((new >= wlo - pad) & (new <= whi + pad)):
                    raise Violation(
                        "nonfinite-rows", f"{what}:R={min(self.R, 2)}",
                        f"no abscissa was added in [{wlo}, {whi}] on the {side} side although "
                        f"the function is finite there (requested {pts} points down to {req})")
            if pts == 1 and self._finiteNear(req, old) and new.size == 0:
                raise Violation("extension", f"{what}:nothing-added",
                                f"nothing was added on the {side} side")
            if new.size and (np.min(new) < min(req, old) - 1.001 * spacing
                             or np.max(new) > max(req, old) + 1.001 * spacing):
                raise Violation("extension", f"{what}:overshoot",
                                f"points were added more than one spacing beyond the "
                                f"requested {side} end {req}")

    def _finiteNear(self, a: float, b: float) -> bool:
        bad = self.body.bad
        return bad is None or max(a, b) < bad["lo"] or min(a, b) > bad["hi"]

    def _op_schedule(self, step: dict, before: Table | None) -> Any:
        x = self._x(step)
        xa = np.asanyarray(x, dtype=float)
        fx = self.body(xa)
        status, res = self._call("scheduleForInterpolation",
                                 lambda: self.obj.scheduleForInterpolation(x, fx))
        after = self.table()
        if status == "injected":
            return ["schedule", "injected"]
        if status == "raised":
            self._classifyUpdateFailure(res, before, after, "scheduleForInterpolation")
        self._adaptiveProbe(before, after)
        return ["schedule"]

    def _classifyUpdateFailure(self, exc: Exception, before: Table | None, after: Table | None,
                               what: str) -> None:
        raise Violation(
            f"{what}-raised", f"{type(exc).__name__}:{'table' if before is not None else 'no-table'}",
            f"{what} raised {type(exc).__name__}: {exc}")

    def _adaptiveProbe(self, before: Table | None, after: Table | None) -> None:
        changed = (before is None) != (after is None) or (
            before is not None and not before.same(after))
        self.justUpdated = changed
        if changed:
            self.ctx.probes["adaptive_update_happened"] += 1
            if before is not None and after is not None:
                self._checkRetained(before, after)

    def _checkRetained(self, before: Table, after: Table) -> None:
        inOld = (after.xs >= before.lo) & (after.xs <= before.hi)
        if not (np.array_equal(after.xs[inOld], before.xs)
                and np.array_equal(after.vals[inOld], before.vals)):
            raise Violation("extension", "adaptive:old-points-not-retained",
                            "an adaptive update did not retain the old table unchanged "
                            "inside the old range")
        if after.lo > before.lo or after.hi < before.hi:
            raise Violation("extension", "adaptive:range-shrunk",
                            "an adaptive update shrank the range")

    # -- the evaluation contract
    def _expected(self, xs: np.ndarray, tab: Table | None, modes: list, interp: bool,
                  order: int) -> tuple[str, np.ndarray, np.ndarray, np.ndarray]:
        """per flat element: expected value (n,R), tolerance (n,R), judged mask (n,)
        -- or ('raise', ...) when the contract prescribes ValueError"""
        n = xs.size
        body = self.body
        exp = np.full((n, self.R), np.nan)
        tol = np.zeros((n, self.R))
        judged = np.ones(n, dtype=bool)
        mag = body.magnitude(xs) if n else 1.0
        direct = (not interp) or tab is None or tab.spline is None

        def directValue(idx: np.ndarray, outside: bool) -> None:
            if order == 0:
                exp[idx] = body(xs[idx]).reshape(idx.sum(), self.R)
                tol[idx] = 1e-12 * mag + 10 * body.noise
            else:
                exp[idx] = body.smooth(xs[idx], order)
                # finite differences of the exact function (documented stencil),
                # plus the amplified evaluation noise of the function itself
                tol[idx] = (1e-7 if order == 1 else 1e-5) * (mag + body.bound(5 + order - 1)) \
                    + (7.0 if order == 1 else 27.0) * body.noise / DX[order] ** order
                judged[idx] &= ~body.isBad(xs[idx], pad=5 * DX[order])

        if direct:
            directValue(np.ones(n, dtype=bool), False)
            return "value", exp, tol, judged
        inside = (xs >= tab.lo) & (xs <= tab.hi)
        below = xs < tab.lo
        above = xs > tab.hi
        tmag = float(np.max(np.abs(tab.vals))) + 1e-300
        if np.any(inside):
            sp = tab.spline if order == 0 else tab.spline.derivative(order)
            exp[inside] = sp(xs[inside]).reshape(inside.sum(), self.R)
            tol[inside] = 1e-10 * (np.abs(exp[inside]) + tmag)
        for mask, mode, edge in ((below, modes[0], tab.lo), (above, modes[1], tab.hi)):
            if not np.any(mask):
                continue
            if mode == "ERROR":
                return "raise", exp, tol, judged
            if mode == "NONE":
                directValue(mask, True)
            elif mode == "CONSTANT":
                if order == 0:
                    exp[mask] = tab.spline(edge).reshape(1, -1)
                    tol[mask] = 1e-12 * tmag
                else:
                    exp[mask] = 0.0
                    tol[mask] = 1e-9 * tmag / DX[order] ** order * 1e-3
            elif mode == "FUNCTION":
                sp = tab.spline if order == 0 else tab.spline.derivative(order)
                exp[mask] = sp(xs[mask]).reshape(mask.sum(), self.R)
                big = np.abs(tab.spline(xs[mask]).reshape(mask.sum(), self.R)) + tmag
                # a cubic continued far beyond its last interval amplifies the
                # rounding of its coefficients by (distance / last spacing)^3
                hEnd = float(tab.xs[1] - tab.xs[0]) if edge == tab.lo \
                    else float(tab.xs[-1] - tab.xs[-2])
                amp = (1.0 + np.abs(xs[mask] - edge) / hEnd) ** 3
                tol[mask] = (1e-10 + 1e-12 * amp)[:, None] * big if order == 0 else \
                    ((1e-7 if order == 1 else 1e-5) + 1e-12 * amp / DX[order] ** order)[:, None] \
                    * (big + np.abs(exp[mask]))
        return "value", exp, tol, judged

    def _unwrap(self, res: Any, shape: tuple) -> Any:
        """FreeEnergy wraps its (fields..., Veff) array in a FreeEnergyValueType"""
        if not hasattr(res, "veffValue"):
            return res
        fields = np.asarray(res.fieldsAtMinimum, dtype=float)
        veff = np.asarray(res.veffValue, dtype=float)
        n = int(np.prod(shape)) if shape else 1
        if fields.size != n or veff.size != n:
            return np.concatenate([fields.ravel(), veff.ravel()])
        return np.stack([fields.reshape(shape), veff.reshape(shape)], axis=-1)

    def _judge(self, what: str, step: dict, status: str, res: Any, before: Table | None,
               after: Table | None, order: int) -> Any:
        x = self._x(step)
        xa = np.asanyarray(x, dtype=float)
        if status == "ok":
            res = self._unwrap(res, xa.shape)
        xs = xa.ravel()
        interp = bool(step["interp"])
        changed = (before is None) != (after is None) or (
            before is not None and not before.same(after))
        candidates = [before] + ([after] if changed else [])
        verdicts = [self._expected(xs, tab, self.modes, interp, order) for tab in candidates]
        R2 = min(self.R, 2)
        cls = self._classify(xs, before, interp)
        self.ctx.checks[what] += 1
        if status == "injected":
            return [what, "injected"]
        if status == "raised":
            errorMode = isinstance(res, ValueError) or type(res).__name__ == "WallGoError"
            if errorMode and any(v[0] == "raise" for v in verdicts):
                self.ctx.probes["error_mode_raised"] += 1
                return [what, "ValueError"]
            raise Violation(
                f"{what}-raised", f"{type(res).__name__}:R={R2}:{cls}",
                f"{what}({step['form']} x={step['x']}) with modes {self.modes} raised "
                f"{type(res).__name__}: {res}")
        if all(v[0] == "raise" for v in verdicts):
            raise Violation(f"{what}-contract", f"error-mode-did-not-raise:R={R2}",
                            f"{what} returned a value for input outside the table on a side "
                            f"whose mode is ERROR (modes {self.modes})")
        got = np.asarray(res, dtype=float)
        wantShape = xa.shape + ((self.R,) if self.R > 1 else ())
        if got.shape != wantShape:
            raise Violation(f"{what}-shape", f"R={R2}:{step['form']}:{cls}",
                            f"{what} returned shape {got.shape} for input of shape {xa.shape} "
                            f"(R={self.R}); expected {wantShape}")
        gf = got.reshape(xs.size, self.R)
        if changed and order > 0:
            return self._judgeMidcallDerivative(what, step, xs, gf, before, after, order, R2)
        okAny = np.zeros(xs.size, dtype=bool)
        worst = None
        for kind, exp, tol, judged in verdicts:
            if kind != "value":
                continue
            with np.errstate(all="ignore"):
                bothNan = np.isnan(gf) & np.isnan(exp)
                bothInf = np.isinf(gf) & np.isinf(exp) & (np.sign(gf) == np.sign(exp))
                err = np.abs(gf - exp)
                okEl = bothNan | bothInf | (err <= tol)
                fin = np.isfinite(err) & (tol > 0)
                if not changed and np.any(fin & judged[:, None]):
                    self.ctx.margin(f"{what}{order}", float(np.max(
                        (err / np.where(tol > 0, tol, 1.0))[fin & judged[:, None]])))
            ok = np.all(okEl, axis=1) | ~judged
            okAny |= ok
            if worst is None and not np.all(ok):
                i = int(np.argmin(ok))
                worst = (i, gf[i].tolist(), exp[i].tolist())
        if not np.all(okAny):
            i = int(np.argmin(okAny))
            raise Violation(
                f"{what}-contract", f"R={R2}:{cls}:{self._elementClass(xs[i], before)}",
                f"{what}({step['form']}, interp={interp}, order={order}) element x={xs[i]!r}: "
                f"got {gf[i].tolist()}, contract says {worst[2] if worst else '?'} "
                f"(modes {self.modes}, table "
                f"{'none' if before is None else [before.lo, before.hi]})",
                {"x": step["x"], "modes": self.modes})
        # accuracy against the exact function where the spline was used
        if order == 0 and interp and before is not None and not changed and before.spline:
            self._accuracy(xs, gf, before)
        return [what, got]

    def _judgeMidcallDerivative(self, what: str, step: dict, xs: np.ndarray, gf: np.ndarray,
                                before: Table | None, after: Table | None, order: int,
                                R2: int) -> Any:
        """An adaptive update replaced the table while the finite-difference
        stencil was being evaluated.  Stencil values then come from the exact
        function or from the spline of SOME table between `before` and `after`
        (an intermediate one is possible), so only this is sound:
          - elements inside the old range were taken from the old spline first;
          - elements on a NONE side approximate f^(n) up to the finite-difference
            error plus (interpolation error of the coarsest table) / dx^n;
          - other elements: finite."""
        self.ctx.probes["derivative_judged_midcall_update"] += 1
        body = self.body
        clean = ~body.isBad(xs, pad=5 * DX[order])
        if not np.all(np.isfinite(gf[clean])):
            raise Violation(f"{what}-contract", f"R={R2}:nonfinite-after-midcall-update",
                            f"{what} returned non-finite values: {gf.tolist()}")
        interp = bool(step["interp"])
        mag = body.magnitude(xs)
        eps = 0.0
        for tab in (before, after):
            if tab is not None and tab.xs.size >= 2:
                eps = max(eps, float(np.max(np.diff(tab.xs))) ** 4 * body.bound(4) + 1e-9 * mag
                          + body.noise)
        coefSum = 7.0 if order == 1 else 27.0
        fdTol = (1e-7 if order == 1 else 1e-5) * (mag + body.bound(5 + order - 1))
        bound = fdTol + coefSum * eps / DX[order] ** order
        signal = body.signal(order)
        useTable = interp and before is not None and before.spline is not None
        for i, x in enumerate(xs):
            if not clean[i]:
                continue
            if useTable and before.lo <= x <= before.hi:
                want = before.spline.derivative(order)(x).reshape(self.R)
                tol = 1e-10 * (np.abs(want) + float(np.max(np.abs(before.vals))) + 1e-300)
                cls = "inside-old-table"
            else:
                mode = "NONE" if not useTable else (self.modes[0] if x < before.lo
                                                     else self.modes[1])
                if mode != "NONE":
                    self.ctx.probes["midcall_element_unjudged_mode"] += 1
                    continue
                if bound > 0.25 * signal:
                    self.ctx.probes["midcall_element_bound_vacuous"] += 1
                    continue
                want = body.smooth(np.array([x]), order).reshape(self.R)
                tol = np.full(self.R, bound)
                cls = "direct-side"
            err = np.abs(gf[i] - want)
            self.ctx.margin(f"{what}{order}_midcall", float(np.max(err / tol)))
            if not np.all(err <= tol):
                raise Violation(
                    f"{what}-contract", f"R={R2}:midcall-update:{cls}",
                    f"{what}(order={order}) element x={x!r} during an adaptive update in "
                    f"mid-call: got {gf[i].tolist()}, expected {want.tolist()} within "
                    f"{tol.tolist()} (modes {self.modes})", {"x": step["x"]})
        return [what, "midcall-update"]

    def _elementClass(self, x: float, tab: Table | None) -> str:
        if tab is None:
            return "no-table"
        if x < tab.lo:
            side, mode, edge = "below", self.modes[0], tab.lo
        elif x > tab.hi:
            side, mode, edge = "above", self.modes[1], tab.hi
        else:
            return "inside"
        near = abs(x - edge) <= 4.5 * DX[2]
        return f"{side}:{mode}" + (":near-boundary" if near else "")

    def _classify(self, xs: np.ndarray, tab: Table | None, interp: bool) -> str:
        if tab is None or not interp:
            return "direct"
        nIn = int(np.sum((xs >= tab.lo) & (xs <= tab.hi)))
        nOut = xs.size - nIn
        if nOut == 0:
            return "inside"
        return "mixed" if nIn else "outside"

    def _accuracy(self, xs: np.ndarray, gf: np.ndarray, tab: Table) -> None:
        """value returned agrees with the underlying function to interpolation accuracy"""
        if not self.body.accuracyClause:
            return
        if hasattr(self.body, "glitchy") and np.any(self.body.glitchy(tab.xs)):
            self.ctx.probes["accuracy_unjudged_glitch_in_underlying_function"] += 1
            return
        inside = (xs >= tab.lo) & (xs <= tab.hi) & ~self.body.isBad(xs)
        if not np.any(inside) or tab.xs.size < 4:
            return
        self.ctx.checks["accuracy"] += 1
        hmax = float(np.max(np.diff(tab.xs)))
        bound = hmax ** 4 * self.body.bound(4) + 1e-9 * self.body.magnitude(xs) \
            + 10 * self.body.noise
        # a non-finite interval inside the range leaves a gap; hmax covers it
        err = np.abs(gf[inside] - self.body.smooth(xs[inside], 0))
        self.ctx.margin("accuracy", float(np.max(err) / bound))
        if not np.all(err <= bound):
            i = int(np.argmax(np.max(err, axis=1)))
            raise Violation(
                "accuracy", f"R={min(self.R, 2)}",
                f"interpolated value at x={xs[inside][i]!r} differs from the function by "
                f"{float(np.max(err)):.3e}; the spline error bound for the largest spacing "
                f"{hmax:.3g} is {bound:.3e}")

    def _op_evaluate(self, step: dict, before: Table | None) -> Any:
        x = self._x(step)
        interp = bool(step["interp"])
        status, res = self._call("evaluate", lambda: self.obj(x, interp))
        if status == "ok":
            self._handOut(res)
        after = self.table()
        self._evalProbes("eval", step, before)
        self._adaptiveProbe(before, after)
        return self._judge("evaluate", step, status, res, before, after, 0)

    def _op_derivative(self, step: dict, before: Table | None) -> Any:
        x = self._x(step)
        interp = bool(step["interp"])
        order = int(step["order"])
        status, res = self._call("derivative",
                                 lambda: self.obj.derivative(x, order, interp))
        if status == "ok":
            self._handOut(res)
        after = self.table()
        self._evalProbes("derivative", step, before)
        self._adaptiveProbe(before, after)
        return self._judge("derivative", step, status, res, before, after, order)

    def _evalProbes(self, what: str, step: dict, tab: Table | None) -> None:
        if tab is None or not step["interp"]:
            return
        xs = np.asanyarray(self._x(step), dtype=float).ravel()
        if not xs.size:
            return
        nIn = int(np.sum((xs >= tab.lo) & (xs <= tab.hi)))
        out = xs[(xs < tab.lo) | (xs > tab.hi)]
        if nIn and out.size:
            self.ctx.probes[f"{what}_mixed"] += 1
        if out.size and self.R == 1 and (set(self.modes) & {"CONSTANT", "FUNCTION"}):
            self.ctx.probes["R1_outside_nontrivial_mode"] += 1
        if what == "derivative" and out.size:
            d = np.minimum(np.abs(out - tab.lo), np.abs(out - tab.hi))
            if np.any(d < 2.5 * DX[int(step["order"])]):
                self.ctx.probes["derivative_near_boundary"] += 1
        self.ctx.probes[f"modes_{self.modes[0]}_{self.modes[1]}_R{min(self.R, 2)}"] += 1

    def _op_read_missing(self, step: dict, before: Table | None) -> Any:
        path = os.path.join(self.ctx.scratch(), "does-not-exist.txt")
        status, res = self._call("readInterpolationTable",
                                 lambda: self.obj.readInterpolationTable(path))
        after = self.table()
        self.ctx.faultFired["read_missing_table"] += 1
        if status == "raised":
            raise Violation("read-missing", f"raised:{type(res).__name__}",
                            "reading a missing table file is documented as non-fatal but "
                            f"raised {type(res).__name__}")
        self._unchanged(before, after, "read of a missing file")
        return ["read_missing"]

    def _op_write_read(self, step: dict, before: Table | None) -> Any:
        if before is None:
            raise Skip()
        if step.get("samePath") and self.nFiles:
            self.ctx.probes["roundtrip_through_the_same_path_again"] += 1
        else:
            self.nFiles += 1
        path = os.path.join(self.ctx.scratch(), f"table{self.nFiles}.txt")
        self.obj.writeInterpolationTable(path)
        if not os.path.exists(path):
            raise Violation("round-trip", "write-produced-no-file",
                            "writeInterpolationTable did not produce a file")
        writer = self.obj
        if step["target"] == "fresh":
            reader = self._newObject(self.adaptive)
            reader.setExtrapolationType(self._mode(step["lower"]), self._mode(step["upper"]))
            self.ctx.probes["roundtrip_fresh"] += 1
        else:
            reader = writer
            self.ctx.probes["roundtrip_same"] += 1
        status, res = self._call("readInterpolationTable",
                                 lambda: reader.readInterpolationTable(path))
        if status == "injected":
            return ["write_read", "injected"]
        if status == "raised":
            raise Violation("round-trip", f"read-raised:{type(res).__name__}:R={min(self.R, 2)}",
                            f"reading back a table just written raised {type(res).__name__}: "
                            f"{res}")
        # evaluate writer and reader at seeded inside points before switching
        pts = before.lo + (before.hi - before.lo) * np.array(step["probe"], dtype=float)
        if step["target"] == "fresh":
            self.obj = reader
            self.modes = [step["lower"], step["upper"]]
        after = self.table()
        if after is None:
            raise Violation("round-trip", "no-table-after-read", "no table after reading back")
        if after.xs.shape != before.xs.shape:
            raise Violation("round-trip", f"size:R={min(self.R, 2)}",
                            f"read back {after.xs.size} points, wrote {before.xs.size}")
        relx = np.max(np.abs(after.xs - before.xs) / np.maximum(np.abs(before.xs), 1e-300))
        tmag = float(np.max(np.abs(before.vals))) + 1e-300
        relv = np.max(np.abs(after.vals - before.vals)) / tmag
        self.ctx.margin("roundtrip", max(float(relx), float(relv)) / 5e-15)
        if not (relx <= 5e-15 and relv <= 5e-15):
            raise Violation("round-trip", f"values:R={min(self.R, 2)}",
                            f"table read back differs from the one written: abscissae rel "
                            f"{relx:.2e}, values rel {relv:.2e} (the file holds 17 significant digits)")
        # the reader evaluates as the spline through the table it now holds
        # (comparing with the writer's spline instead would measure the
        # conditioning of strongly non-uniform tables, not the round trip)
        got = np.asarray(self._unwrap(self.obj(pts), pts.shape),
                         dtype=float).reshape(pts.size, self.R)
        want = after.spline(pts).reshape(pts.size, self.R)
        if got.shape != want.shape or not np.all(
                np.abs(got - want) <= 1e-10 * (tmag + np.abs(want))):
            raise Violation("round-trip", f"function:R={min(self.R, 2)}",
                            "the function read back does not evaluate as the spline "
                            "through the table that was written")
        return ["write_read", step["target"], after.xs.size]

    # ------------------------------------------------------------------ invariants
    def _invariants(self, tab: Table | None, step: dict) -> None:
        self.ctx.checks["table_invariants"] += 1
        obj = self.obj
        if tab is None:
            return
        xs = tab.xs
        if xs.size < 2 or not np.all(np.diff(xs) > 0):
            raise Violation("abscissae", "not-strictly-increasing",
                            f"table abscissae are not strictly increasing after {step['op']}")
        if not np.all(np.isfinite(tab.vals)) or not np.all(np.isfinite(xs)):
            raise Violation("nonfinite-rows", f"kept:R={min(self.R, 2)}",
                            f"the table holds non-finite entries after {step['op']}")
        if obj.numPoints() != xs.size:
            raise Violation("table-meta", "numPoints", "numPoints() disagrees with the table")
        if float(obj.interpolationRangeMin()) != tab.lo or \
                float(obj.interpolationRangeMax()) != tab.hi:
            raise Violation(
                "table-meta", "range",
                f"reported range [{obj.interpolationRangeMin()}, {obj.interpolationRangeMax()}] "
                f"is not [min, max] of the abscissae [{tab.lo}, {tab.hi}]")
        want = self.body(xs).reshape(xs.size, self.R)
        tmag = float(np.max(np.abs(tab.vals))) + 1e-300
        with np.errstate(all="ignore"):
            bad = ~(np.abs(tab.vals - want) <= 1e-12 * tmag + 10 * self.body.noise)
        if np.any(bad):
            i = int(np.argmax(np.any(bad, axis=1)))
            raise Violation(
                "table-values", f"R={min(self.R, 2)}",
                f"tabulated value at abscissa {xs[i]!r} is {tab.vals[i].tolist()}, the function "
                f"gives {want[i].tolist()} (after {step['op']})")
        if self.body.bad is not None and tab.lo < self.body.bad["hi"] and \
                tab.hi > self.body.bad["lo"]:
            self.ctx.probes["bad_interval_overlaps_table"] += 1

    def abstraction(self) -> Any:
        has = self.obj.hasInterpolation()
        n = self.obj.numPoints() if has else 0
        overlap = False
        if has and self.body.bad is not None:
            overlap = bool(self.obj.interpolationRangeMin() < self.body.bad["hi"]
                           and self.obj.interpolationRangeMax() > self.body.bad["lo"])
        return [has, self.modes[0], self.modes[1], self.adaptive,
                0 if n < 5 else 1 if n < 20 else 2, self.R, overlap]
