"""CLI of the simulator.  Always started through /verif/bin/check, which pins
the environment (BLAS threads, hash seed, sys.path) before Python starts."""

from __future__ import annotations

import argparse
import os
import sys
import traceback

VERIF_ROOT = os.path.dirname(os.path.dirname(os.path.abspath(__file__)))
if VERIF_ROOT not in sys.path:
    sys.path.insert(0, VERIF_ROOT)


def _pinned() -> None:
    for var in ("OPENBLAS_NUM_THREADS", "OMP_NUM_THREADS", "MKL_NUM_THREADS"):
        if os.environ.get(var) != "1":
            raise SystemExit(f"HARNESS-ERROR {var} must be 1 (start through bin/check)")
    if "PYTHONHASHSEED" not in os.environ:
        raise SystemExit("HARNESS-ERROR PYTHONHASHSEED must be set (start through bin/check)")
    import logging
    import warnings
    warnings.resetwarnings()
    warnings.simplefilter("default")
    logging.disable(logging.WARNING)
    with warnings.catch_warnings():
        warnings.simplefilter("ignore")  # "WallGoCollision not installed"
        import WallGo  # pylint: disable=import-outside-toplevel
    repoSrc = os.environ.get("WGSIM_REPO_SRC", "/repo/src")
    if not os.path.abspath(WallGo.__file__).startswith(os.path.abspath(repoSrc) + os.sep):
        raise SystemExit(
            f"HARNESS-ERROR WallGo imported from {WallGo.__file__}, not from {repoSrc}")


def main() -> int:
    parser = argparse.ArgumentParser(prog="check")
    parser.add_argument("prop")
    parser.add_argument("--tier", default=os.environ.get("VERIF_TIER") or "quick",
                        choices=["quick", "thorough"])
    parser.add_argument("--seed", type=int, default=None)
    parser.add_argument("--replay", default=None)
    parser.add_argument("--quiet", action="store_true")
    parser.add_argument("--digest-of", default=None)
    parser.add_argument("--runs", type=int, default=None)
    parser.add_argument("--cap", type=float, default=None)
    parser.add_argument("--workers", type=int, default=None)
    parser.add_argument("--no-selfcheck", action="store_true")
    parser.add_argument("--no-evidence", action="store_true")
    parser.add_argument("--mutants", default=None)
    parser.add_argument("--replay-dir", default=None)
    parser.add_argument("--no-minimise", action="store_true")
    args = parser.parse_args()
    seed = args.seed
    if seed is None:
        try:
            seed = int(os.environ.get("VERIF_SEED") or 0)
        except ValueError:
            seed = 0
    _pinned()
    from wgsim import driver  # pylint: disable=import-outside-toplevel
    if os.environ.get("WGSIM_MUTANT"):
        from wgsim import mutants  # pylint: disable=import-outside-toplevel
        try:
            mutants.apply(os.environ["WGSIM_MUTANT"])
        except mutants.MutantNotApplicable as exc:
            print(f"MUTANT-NOT-APPLICABLE {exc}")
            return 0
        print(f"SELFTEST running with in-memory mutant {os.environ['WGSIM_MUTANT']}")
    if args.replay_dir:
        driver.REPLAY_SUBDIR = args.replay_dir
    if args.no_minimise:
        driver.MAX_MINIMISED_KEYS = {p: 0 for p in ("C01", "C14", "C17", "C18")}

    if args.prop == "selftest":
        from wgsim import selftest  # pylint: disable=import-outside-toplevel
        return selftest.main(args.tier, seed, args.mutants)
    if args.replay is not None:
        return driver.replayFile(args.replay, verbose=not args.quiet)
    if args.digest_of is not None:
        return driver.digestOf(args.prop, args.tier, seed,
                               [int(x) for x in args.digest_of.split(",")])
    return driver.runBatch(args.prop, args.tier, seed, args.runs, args.cap, args.workers,
                           selfcheck=not args.no_selfcheck,
                           writeEvidence=not args.no_evidence)


if __name__ == "__main__":
    try:
        code = main()
    except SystemExit:
        raise
    except BaseException:  # pylint: disable=broad-except
        traceback.print_exc()
        print("HARNESS-ERROR unhandled exception in the harness (this is not a violation)")
        code = 2
    sys.stdout.flush()
    sys.exit(code)
