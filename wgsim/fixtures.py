"""
wgsim.fixtures -- what WallGo expects from a user, supplied by the harness:
analytic model classes whose potential evaluation is a counted seam (fault
injection: raise / return NaN at the k-th call), and a stub writer for the
collision generator's on-disk format.
"""

from __future__ import annotations

import pathlib
from typing import Any

import numpy as np


class CallbackCtl:
    """the seam inside the user's EffectivePotential.evaluate"""

    def __init__(self) -> None:
        self.calls = 0
        self.armedAt: int | None = None
        self.kind = "raise"
        self.fired = False

    def arm(self, k: int, kind: str) -> None:
        self.armedAt = int(k)
        self.kind = kind
        self.fired = False

    def disarm(self) -> None:
        self.armedAt = None

    def tick(self) -> str | None:
        self.calls += 1
        if self.armedAt is not None and self.calls == self.armedAt:
            self.armedAt = None
            self.fired = True
            return self.kind
        return None


_CLASSES: dict = {}


def modelClasses(WallGo: Any) -> dict:
    """Model classes are created once per process (GenericModel keeps a
    class-level particle list, so class identity is part of the behaviour)."""
    if "yukawa" in _CLASSES:
        return _CLASSES

    class YukawaPotential(WallGo.EffectivePotential):
        """the repository's own example potential: one scalar + Dirac fermion,
        polynomial with T-dependent coefficients (2310.02308)"""

        fieldCount = 1
        effectivePotentialError = 1e-15

        def __init__(self, owner: Any):
            super().__init__()
            self.owner = owner
            self.modelParameters = owner.modelParameters

        def evaluate(self, fields: Any, temperature: Any) -> Any:
            event = self.owner.ctl.tick()
            if event == "raise":
                # what EImaginaryOption.ERROR / a user's domain check really raises
                raise ValueError("injected: effective potential has an imaginary part")
            fields = WallGo.Fields(fields)
            phi = fields.getField(0)
            p = self.modelParameters
            y, mf = p["y"], p["mf"]
            f0 = -np.pi**2 / 90 * (1 + 4 * 7 / 8) * temperature**4
            sigmaEff = p["sigma"] + 1 / 24 * (p["gamma"] + 4 * y * mf) * temperature**2
            msqEff = p["msq"] + 1 / 24 * (p["lam"] + 4 * y**2) * temperature**2
            total = (f0 + sigmaEff * phi + 0.5 * msqEff * phi**2
                     + p["gamma"] / 6 * phi**3 + p["lam"] / 24 * phi**4)
            total = np.array(total)
            if event == "nan":
                return total * np.nan
            return total

        def dVdT(self, phi: np.ndarray, T: np.ndarray) -> np.ndarray:
            """analytic temperature derivative (oracle only)"""
            p = self.modelParameters
            y, mf = p["y"], p["mf"]
            return (-np.pi**2 / 90 * (1 + 4 * 7 / 8) * 4 * T**3
                    + (1 / 12) * (p["gamma"] + 4 * y * mf) * T * phi
                    + 0.5 * (1 / 12) * (p["lam"] + 4 * y**2) * T * phi**2)

        def exact(self, phi: np.ndarray, T: np.ndarray) -> np.ndarray:
            """the potential without the seam (oracle only)"""
            p = self.modelParameters
            y, mf = p["y"], p["mf"]
            return (-np.pi**2 / 90 * (1 + 4 * 7 / 8) * T**4
                    + (p["sigma"] + 1 / 24 * (p["gamma"] + 4 * y * mf) * T**2) * phi
                    + 0.5 * (p["msq"] + 1 / 24 * (p["lam"] + 4 * y**2) * T**2) * phi**2
                    + p["gamma"] / 6 * phi**3 + p["lam"] / 24 * phi**4)

    class YukawaSim(WallGo.GenericModel):
        kind = "yukawa"
        particleNames = ("psiL", "psiR")

        def __init__(self, ctl: CallbackCtl, params: dict):
            self.ctl = ctl
            self.modelParameters: dict = dict(params)
            self.effectivePotential = YukawaPotential(self)
            self.defineParticles()

        @property
        def fieldCount(self) -> int:
            return 1

        def getEffectivePotential(self) -> Any:
            return self.effectivePotential

        def defineParticles(self) -> None:
            self.clearParticles()

            def msqVacuum(fields: Any) -> Any:
                return (self.modelParameters["mf"]
                        + self.modelParameters["y"] * fields.getField(0)) ** 2

            def msqDerivative(fields: Any) -> Any:
                return 2 * self.modelParameters["y"] * (
                    self.modelParameters["mf"]
                    + self.modelParameters["y"] * fields.getField(0))

            for index, name in enumerate(self.particleNames):
                self.addParticle(WallGo.Particle(name, index=index + 1, msqVacuum=msqVacuum,
                                                 msqDerivative=msqDerivative,
                                                 statistics="Fermion", totalDOFs=2))

    class BagPotential(WallGo.EffectivePotential):
        """bag-like quartic: the field part is (nearly) T-independent, so the
        pressure at the top of the window is negative -> RUNAWAY"""

        fieldCount = 1
        effectivePotentialError = 1e-15

        def __init__(self, owner: Any):
            super().__init__()
            self.owner = owner

        def evaluate(self, fields: Any, temperature: Any) -> Any:
            event = self.owner.ctl.tick()
            if event == "raise":
                raise ValueError("injected: effective potential has an imaginary part")
            p = self.owner.modelParameters
            phi = WallGo.Fields(fields).getField(0)
            T = np.asarray(temperature)
            total = np.array(-p["a"] * T**4 + 0.5 * (p["msq"] + p["cT"] * T**2) * phi**2
                             - p["mu"] / 3 * phi**3 + p["lam"] / 4 * phi**4)
            if event == "nan":
                return total * np.nan
            return total

    class BagSim(WallGo.GenericModel):
        kind = "bag"
        particleNames = ()

        def __init__(self, ctl: CallbackCtl, params: dict):
            self.ctl = ctl
            self.modelParameters: dict = dict(params)
            self.effectivePotential = BagPotential(self)
            self.clearParticles()

        @property
        def fieldCount(self) -> int:
            return 1

        def getEffectivePotential(self) -> Any:
            return self.effectivePotential

    class SingletPotential(WallGo.EffectivePotential):
        """two-field Z2 singlet extension in the high-temperature expansion (the
        repository's simplified test model); transition (0, x) -> (v, 0)"""

        fieldCount = 2
        effectivePotentialError = 1e-15

        def __init__(self, owner: Any):
            super().__init__()
            self.owner = owner

        def _coefficients(self, T: Any) -> tuple:
            p = self.owner.modelParameters
            cH = (3 * p["g2"] ** 2 + p["g1"] ** 2 + 4 * p["yt"] ** 2 + 8 * p["lHH"]) / 16 \
                + p["lHS"] / 24
            cS = p["lHS"] / 6 + p["lSS"] / 4
            return p["muHsq"] + cH * T**2, p["muSsq"] + cS * T**2, cH, cS

        def evaluate(self, fields: Any, temperature: Any) -> Any:
            event = self.owner.ctl.tick()
            if event == "raise":
                raise ValueError("injected: effective potential has an imaginary part")
            f = WallGo.Fields(fields)
            total = np.array(self.exact2(f.getField(0), f.getField(1), np.asarray(temperature)))
            if event == "nan":
                return total * np.nan
            return total

        def exact2(self, v: Any, x: Any, T: Any) -> Any:
            p = self.owner.modelParameters
            muH, muS, _, _ = self._coefficients(T)
            return (0.5 * muH * v**2 + 0.25 * p["lHH"] * v**4 + 0.5 * muS * x**2
                    + 0.25 * p["lSS"] * x**4 + 0.25 * p["lHS"] * v**2 * x**2
                    - 107.75 * np.pi**2 / 90 * T**4)

        def dVdT2(self, v: Any, x: Any, T: Any) -> Any:
            _, _, cH, cS = self._coefficients(T)
            return cH * T * v**2 + cS * T * x**2 - 107.75 * np.pi**2 / 90 * 4 * T**3

    class SingletSim(WallGo.GenericModel):
        kind = "singlet"
        particleNames = ()

        def __init__(self, ctl: CallbackCtl, params: dict):
            self.ctl = ctl
            self.modelParameters: dict = dict(params)
            self.effectivePotential = SingletPotential(self)
            self.clearParticles()

        @property
        def fieldCount(self) -> int:
            return 2

        def getEffectivePotential(self) -> Any:
            return self.effectivePotential

    _CLASSES["yukawa"] = YukawaSim
    _CLASSES["bag"] = BagSim
    _CLASSES["singlet"] = SingletSim
    return _CLASSES


MODEL_PARAMS = {
    "yukawa": {"sigma": 0.0, "msq": 1.0, "gamma": -1.2, "lam": 0.10, "y": 0.55, "mf": 0.30},
    "bag": {"a": 3.0, "msq": 1.0, "mu": 3.3, "lam": 2.0, "cT": 0.02},
    # Lagrangian parameters of the repository's singlet benchmark BM1
    "singlet": {"lHS": 0.9, "lSS": 1.0, "lHH": 0.12909808976138543, "muHsq": -7812.5,
                "muSsq": -12832.2, "g1": 0.3501031219017684, "g2": 0.6534878048780488,
                "yt": 0.9945485621566887},
}

#: benchmark points: phase guesses and derivative scales per model
POINTS = {
    "yukawa": {"phase1": [0.4], "phase2": [27.0], "Tscale": 1.0, "fscale": [100.0],
               "good": [5.5, 5.8, 6.5, 7.0, 7.3, 7.5, 7.6, 7.7, 7.9, 8.0, 8.2, 8.3], "bad": [8.6, 4.9]},
    "bag": {"phase1": [0.0], "phase2": [1.2], "Tscale": None, "fscale": [1.0],
            "good": [0.5], "bad": []},
    "singlet": {"phase1": [0.0, 200.0], "phase2": [246.0, 0.0], "Tscale": 10.0,
                "fscale": [10.0, 10.0], "good": [95.0, 100.0, 104.0], "bad": [120.0]},
}


def writeRelaxationCollisions(directory: pathlib.Path, names: tuple, N: int, gamma: float,
                              mix: float, only: list | None = None) -> None:
    """Stub for WallGoCollision.writeToIndividualHDF5: relaxation-time operator
    gamma*1 in the Cardinal basis with inter-species mixing `mix`."""
    import h5py  # pylint: disable=import-outside-toplevel

    directory.mkdir(parents=True, exist_ok=True)
    n = N - 1
    eye = np.zeros((n, n, n, n))
    for i in range(n):
        for j in range(n):
            eye[i, j, i, j] = 1.0
    for a in names:
        for b in names:
            if only is not None and [a, b] not in only and (a, b) not in only:
                continue
            arr = eye * (gamma if a == b else mix)
            with h5py.File(str(directory / f"collisions_{a}_{b}.hdf5"), "w") as fh:
                meta = fh.create_group("metadata")
                meta.attrs["Basis Size"] = N
                meta.attrs["Basis Type"] = np.bytes_("Cardinal")
                fh.create_dataset(f"{a}, {b}", data=arr)
