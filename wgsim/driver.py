"""
wgsim.driver -- batch driver: process pool, violation handling, known
findings, replay files, evidence.  Wall-clock is read here only, between
runs, to stop starting new ones; never inside a run.
"""

from __future__ import annotations

import collections
import concurrent.futures as cf
import faulthandler
import hashlib
import json
import multiprocessing
import os
import subprocess
import sys
import time
from typing import Any

from . import core

EXIT_OK, EXIT_VIOLATION, EXIT_HARNESS, EXIT_NONDET = 0, 1, 2, 3
REPLAY_SUBDIR = ""


def loadMachine(prop: str) -> type:
    if prop == "C17":
        from .c17_grid import GridMachine as m
    elif prop == "C18":
        from .c18_interp import InterpMachine as m
    elif prop == "C14":
        from .c14_collisions import CollisionMachine as m
    elif prop == "C01":
        from .c01_manager import ManagerMachine as m
    else:
        raise core.HarnessError(f"no machine for property {prop}")
    return m


def loadKnownFindings(prop: str) -> tuple[dict, list]:
    """known: key -> entry (status 'known');  fixed: list of entries."""
    path = os.path.join(core.VERIF_ROOT, "known_findings.json")
    known: dict = {}
    fixed: list = []
    if os.path.exists(path):
        with open(path) as fh:
            data = json.load(fh)
        for entry in data.get("findings", []):
            if entry.get("property") != prop:
                continue
            if entry.get("status") == "known":
                known[entry["key"]] = entry
            else:
                fixed.append(entry)
    return known, fixed


# --------------------------------------------------------------------------
# worker side
# --------------------------------------------------------------------------
def _runChunk(args: tuple) -> dict:
    prop, baseSeed, indices, tier, deadline, perRunTimeout, knownKeys = args
    faulthandler.enable()
    machineCls = loadMachine(prop)
    out: dict = {
        "runs": 0, "steps": 0, "skippedRuns": 0, "violations": [], "knownHits": [],
        "faultFired": collections.Counter(), "probes": collections.Counter(),
        "checks": collections.Counter(),
        "histories": {}, "states": set(), "bigrams": set(), "samples": [],
        "digests": {}, "harnessErrors": [], "ops": collections.Counter(),
        "outcomes": collections.Counter(), "maxima": {},
    }
    for index in indices:
        if time.time() > deadline:
            out["skippedRuns"] += 1
            continue
        seedI = core.deriveSeed(prop, baseSeed, index)
        try:
            res, shared = core.runIsolated(_oneRun, (prop, seedI, tier, knownKeys),
                                           perRunTimeout)
            _importShared(machineCls, shared)
        except core.RunTimeout as exc:
            out["harnessErrors"].append(
                {"index": index, "seedI": seedI, "error": f"TIMEOUT {exc}"})
            continue
        except BaseException as exc:  # pylint: disable=broad-except
            out["harnessErrors"].append(
                {"index": index, "seedI": seedI, "error": core.formatException(exc)})
            continue
        out["runs"] += 1
        out["steps"] += len(res.steps)
        out["digests"][index] = res.digest
        out["histories"][res.historyHash] = bool(res.nontrivial) or out[
            "histories"].get(res.historyHash, False)
        out["states"] |= res.states
        out["bigrams"] |= res.bigrams
        for ev in res.events:
            out["ops"][ev[1]] += 1
            out["outcomes"][ev[2].split(":")[0]] += 1
        for name in ("faultFired", "probes", "checks"):
            out[name].update(res.stats[name])
        for name, val in res.stats["maxima"].items():
            out["maxima"][name] = max(val, out["maxima"].get(name, 0.0))
        if len(out["samples"]) < 2 and res.nontrivial:
            out["samples"].append(
                {"index": index, "seedI": seedI, "cfg": res.cfg, "steps": res.steps,
                 "events": res.events})
        if res.violation is not None:
            out["violations"].append(
                {"index": index, "seedI": seedI, "cfg": res.cfg, "steps": res.steps,
                 "violation": res.violation, "digest": res.digest})
        if res.knownHit is not None:
            out["knownHits"].append(
                {"index": index, "seedI": seedI, "key": res.knownHit["key"],
                 "message": res.knownHit["message"]})
    out["states"] = sorted(out["states"])
    out["bigrams"] = sorted(out["bigrams"])
    for name in ("faultFired", "probes", "checks", "ops", "outcomes"):
        out[name] = dict(out[name])
    return out


def _oneRun(prop: str, seedI: int, tier: str, knownKeys: frozenset) -> tuple:
    """executed in a forked child: one history, generated from its seed"""
    machineCls = loadMachine(prop)
    cfg = machineCls.drawConfig(core.stream(seedI, "cfg"), tier)
    res = core.executeHistory(machineCls, cfg, None, seedI, knownKeys)
    return res, _exportShared(machineCls)


def _replayRun(prop: str, cfg: dict, steps: list, seedI: int) -> tuple:
    machineCls = loadMachine(prop)
    res = core.executeHistory(machineCls, cfg, steps, seedI)
    return res, _exportShared(machineCls)


def _exportShared(machineCls: type) -> Any:
    fn = getattr(machineCls, "exportShared", None)
    return fn() if fn else None


def _importShared(machineCls: type, shared: Any) -> None:
    fn = getattr(machineCls, "importShared", None)
    if fn and shared:
        fn(shared)


def _minimiseTask(args: tuple) -> dict:
    prop, cfg, steps, seedI, key, budget, perRunTimeout = args
    machineCls = loadMachine(prop)

    def runner(c: dict, s: list) -> Any:
        # every candidate in its own process: state of the system under test
        # cannot leak from one candidate into the next
        res, shared = core.runIsolated(_replayRun, (prop, c, s, seedI), perRunTimeout)
        _importShared(machineCls, shared)
        return res

    cfg2, steps2, converged, used = core.minimise(
        machineCls, cfg, steps, seedI, key, budget, runner=runner)
    res = runner(cfg2, steps2)
    return {"cfg": cfg2, "steps": steps2, "converged": converged, "replays": used,
            "violation": res.violation, "digest": res.digest, "events": res.events}


# --------------------------------------------------------------------------
# replay
# --------------------------------------------------------------------------
def replayFile(path: str, verbose: bool = True) -> int:
    with open(path) as fh:
        data = json.load(fh)
    prop = data["property"]
    machineCls = loadMachine(prop)
    res = core.executeHistory(machineCls, data["cfg"], data["steps"], data["seedI"])
    info = {"violation": res.violation, "digest": res.digest}
    if verbose:
        for ev in res.events:
            print("EVENT", *ev)
    print("REPLAY-RESULT " + json.dumps(info, sort_keys=True))
    if res.violation is None:
        print(f"NOT-REPRODUCED property={prop} replay={path}")
        return EXIT_OK
    sameKey = res.violation["key"] == data["violation"]["key"]
    sameDigest = res.digest == data["digest"]
    print(f"replayed: key={res.violation['key']} same_key={sameKey} "
          f"same_event_log_digest={sameDigest}")
    print(f"  {res.violation['message']}")
    print(f"VIOLATION property={prop} replay={path}")
    return EXIT_VIOLATION


def _freshInterpreter(argv: list, hashSeed: str = "0", timeout: float = 900) -> str:
    env = dict(os.environ)
    env["PYTHONHASHSEED"] = hashSeed
    proc = subprocess.run(
        [sys.executable, os.path.join(core.VERIF_ROOT, "wgsim", "main.py")] + argv,
        env=env, capture_output=True, text=True, timeout=timeout, check=False)
    return proc.stdout + proc.stderr


# --------------------------------------------------------------------------
# batch
# --------------------------------------------------------------------------
TIERS = {
    # prop: tier: (runs, wall cap s, per-run timeout s, workers)
    "C17": {"quick": (6000, 600, 60, 16), "thorough": (400000, 2400, 60, 16)},
    "C18": {"quick": (12000, 900, 120, 16), "thorough": (400000, 3600, 120, 16)},
    "C14": {"quick": (6000, 600, 120, 16), "thorough": (300000, 3000, 120, 16)},
    "C01": {"quick": (112, 2400, 900, 16), "thorough": (1600, 7200, 900, 16)},
}


def runBatch(prop: str, tier: str, baseSeed: int, runsOverride: int | None = None,
             capOverride: float | None = None, workersOverride: int | None = None,
             selfcheck: bool = True, writeEvidence: bool = True) -> int:
    t0 = time.time()
    nRuns, cap, perRun, workers = TIERS[prop][tier]
    if runsOverride is not None:
        nRuns = runsOverride
    if capOverride is not None:
        cap = capOverride
    if workersOverride is not None:
        workers = workersOverride
    workers = max(1, min(workers, os.cpu_count() or 1))
    machineCls = loadMachine(prop)
    known, fixed = loadKnownFindings(prop)
    knownKeys = frozenset(known)
    print(f"SEED property={prop} VERIF_SEED={baseSeed} tier={tier} runs={nRuns} "
          f"workers={workers} engine={core.ENGINE_VERSION}", flush=True)

    deadline = t0 + cap
    chunkSize = max(1, min(50, nRuns // (workers * 4) or 1))
    chunks = [list(range(i, min(i + chunkSize, nRuns))) for i in range(0, nRuns, chunkSize)]
    agg: dict = {
        "runs": 0, "steps": 0, "skippedRuns": 0, "violations": [], "knownHits": [],
        "faultFired": collections.Counter(), "probes": collections.Counter(),
        "checks": collections.Counter(), "ops": collections.Counter(),
        "outcomes": collections.Counter(),
        "histories": {}, "states": set(), "bigrams": set(), "samples": [],
        "digests": {}, "harnessErrors": [], "maxima": {},
    }
    ctxmp = multiprocessing.get_context("fork")
    try:
        with cf.ProcessPoolExecutor(max_workers=workers, mp_context=ctxmp) as pool:
            futures = [pool.submit(_runChunk, (prop, baseSeed, chunk, tier, deadline,
                                               perRun, knownKeys)) for chunk in chunks]
            for fut in cf.as_completed(futures):
                part = fut.result()
                for name in ("runs", "steps", "skippedRuns"):
                    agg[name] += part[name]
                for name in ("violations", "knownHits", "harnessErrors"):
                    agg[name].extend(part[name])
                for name in ("faultFired", "probes", "checks", "ops", "outcomes"):
                    agg[name].update(part[name])
                for name, val in part["maxima"].items():
                    agg["maxima"][name] = max(val, agg["maxima"].get(name, 0.0))
                for hh, nontrivial in part["histories"].items():
                    agg["histories"][hh] = nontrivial or agg["histories"].get(hh, False)
                agg["states"].update(part["states"])
                agg["bigrams"].update(part["bigrams"])
                agg["digests"].update(part["digests"])
                if len(agg["samples"]) < 3:
                    agg["samples"].extend(part["samples"][: 3 - len(agg["samples"])])
    except cf.process.BrokenProcessPool as exc:
        print(f"HARNESS-ERROR worker process died: {exc}")
        return EXIT_HARNESS

    if agg["harnessErrors"]:
        for err in agg["harnessErrors"][:5]:
            print(f"HARNESS-ERROR run index={err['index']} seed_i={err['seedI']}\n{err['error']}")
        print(f"HARNESS-ERROR {len(agg['harnessErrors'])} runs failed inside the harness")
        return EXIT_HARNESS
    if agg["runs"] == 0:
        print("HARNESS-ERROR no run executed")
        return EXIT_HARNESS

    exitCode = EXIT_OK
    # ---- violations: one report per distinct key, minimised and replay-verified
    byKey: dict = {}
    for v in sorted(agg["violations"], key=lambda v: (len(v["steps"]), v["index"])):
        byKey.setdefault(v["violation"]["key"], v)
    replayPaths = []
    unconfirmed: list = []
    for rank, (key, v) in enumerate(sorted(byKey.items())):
        # every distinct key gets a verified replay file; only the first few are
        # minimised (minimising a C01 history costs minutes)
        path = _reportViolation(prop, tier, baseSeed, key, v, ctxmp,
                                minimiseIt=rank < MAX_MINIMISED_KEYS.get(prop, 6))
        if path is None:
            unconfirmed.append(key)
        else:
            replayPaths.append(path)
    if replayPaths:
        # at least one violation is substantiated by a replay in a fresh process;
        # keys that could not be reproduced are listed, they do not change the verdict
        exitCode = EXIT_VIOLATION
        for key in unconfirmed:
            print(f"NOTE violation key={key} was seen in the batch but did not reproduce in a "
                  "fresh process (not counted)")
    elif unconfirmed:
        exitCode = EXIT_NONDET

    # ---- known findings re-observed
    knownSeen = collections.Counter(h["key"] for h in agg["knownHits"])
    for key in sorted(knownSeen):
        print(f"KNOWN-FINDING: property={prop} {known[key]['what']} "
              f"[key={key}; re-observed in {knownSeen[key]} runs]")
    for key in sorted(set(known) - set(knownSeen)):
        print(f"NOTE known finding not re-observed in this batch: {key}")

    # ---- determinism self-check: two seeds again in a fresh interpreter
    selfcheckInfo: dict = {}
    if selfcheck and exitCode == EXIT_OK:
        indices = sorted(agg["digests"])[:1] + sorted(agg["digests"])[-1:]
        out = _freshInterpreter(
            [prop, "--digest-of", ",".join(map(str, indices)), "--seed", str(baseSeed),
             "--tier", tier], hashSeed="7")
        got = {}
        for line in out.splitlines():
            if line.startswith("DIGEST "):
                _, idx, dg = line.split()
                got[int(idx)] = dg
        for idx in indices:
            selfcheckInfo[str(idx)] = {"batch": agg["digests"][idx], "fresh": got.get(idx)}
            if got.get(idx) != agg["digests"][idx]:
                print(f"HARNESS-NONDETERMINISM run index {idx}: batch digest "
                      f"{agg['digests'][idx]} fresh-interpreter digest {got.get(idx)}")
                print(out[-2000:])
                exitCode = EXIT_NONDET

    # ---- reach assertions
    reachProblems = _reach(machineCls, agg, tier) if exitCode == EXIT_OK else []
    for msg in reachProblems:
        print("HARNESS-REACH " + msg)
    if reachProblems:
        exitCode = EXIT_NONDET

    wall = time.time() - t0
    if writeEvidence:
        _writeEvidence(prop, tier, baseSeed, machineCls, agg, wall, len(byKey),
                       knownSeen, selfcheckInfo, replayPaths, workers)
    nDistinct = sum(1 for nt in agg["histories"].values() if nt)
    print(f"SUMMARY property={prop} tier={tier} runs={agg['runs']} steps={agg['steps']} "
          f"distinct_nontrivial={nDistinct} states={len(agg['states'])} "
          f"violations={len(byKey)} known_findings={len(knownSeen)} "
          f"skipped_runs={agg['skippedRuns']} wall_s={wall:.1f} exit={exitCode}")
    return exitCode


def _reach(machineCls: type, agg: dict, tier: str) -> list:
    problems = []
    required = getattr(machineCls, "REQUIRED_REACH", {}).get(tier, {})
    for group, names in required.items():
        for name in names:
            if agg[group].get(name, 0) == 0:
                problems.append(f"{group}[{name}] was never reached in this batch")
    return problems


MAX_MINIMISED_KEYS = {"C01": 2}


def _reportViolation(prop: str, tier: str, baseSeed: int, key: str, v: dict,
                     ctxmp: Any, minimiseIt: bool = True) -> str | None:
    budget = {"C01": 24}.get(prop, 400) if minimiseIt else 1
    timeout = {"C01": 3600}.get(prop, 600)
    mini = None
    try:
        with cf.ProcessPoolExecutor(max_workers=1, mp_context=ctxmp) as pool:
            fut = pool.submit(_minimiseTask, (prop, v["cfg"], v["steps"], v["seedI"], key,
                                              budget, TIERS[prop][tier][2]))
            mini = fut.result(timeout=timeout)
    except Exception as exc:  # pylint: disable=broad-except
        print(f"NOTE minimisation failed ({type(exc).__name__}: {exc}); reporting unminimised history")
    if mini is None or mini["violation"] is None or mini["violation"]["key"] != key:
        mini = {"cfg": v["cfg"], "steps": v["steps"], "converged": False, "replays": 0,
                "violation": v["violation"], "digest": v["digest"], "events": []}
    keyHash = hashlib.sha256(key.encode()).hexdigest()[:10]
    outDir = os.path.join(core.VERIF_ROOT, "replays", REPLAY_SUBDIR, prop)
    os.makedirs(outDir, exist_ok=True)
    path = os.path.join(outDir, f"{keyHash}-{v['seedI']:016x}.json")
    data = {
        "property": prop, "engine": core.ENGINE_VERSION, "seedI": v["seedI"],
        "verifSeed": baseSeed, "runIndex": v["index"], "tier": tier,
        "env": {k: os.environ.get(k) for k in (
            "OPENBLAS_NUM_THREADS", "OMP_NUM_THREADS", "MKL_NUM_THREADS", "PYTHONHASHSEED")},
        "cfg": mini["cfg"], "steps": mini["steps"], "violation": mini["violation"],
        "digest": mini["digest"], "events": mini["events"],
        "minimised": {"converged": mini["converged"], "replays": mini["replays"],
                      "originalSteps": len(v["steps"])},
    }
    with open(path, "w") as fh:
        json.dump(data, fh, indent=1, sort_keys=True, default=core._jsonDefault)
    # the replay must reproduce the same execution in a fresh process
    def replayOnce() -> tuple[bool, bool, str]:
        out = _freshInterpreter([prop, "--replay", path, "--quiet"], hashSeed="3",
                                timeout=timeout)
        sameKey = sameDigest = False
        for line in out.splitlines():
            if line.startswith("REPLAY-RESULT "):
                info = json.loads(line[len("REPLAY-RESULT "):])
                sameKey = info["violation"] is not None and info["violation"]["key"] == key
                sameDigest = sameKey and info["digest"] == data["digest"]
        return sameKey, sameDigest, out

    sameKey, sameDigest, out = replayOnce()
    if not sameDigest:
        # The system under test itself may be nondeterministic where it is broken
        # (results read from uninitialised memory, for instance).  Try again, then
        # fall back to the unminimised history; a violation that reproduces in some
        # fresh process is still reported as a violation, flagged as flaky.
        hits, tries = int(sameKey), 1
        for _ in range(3):
            k, d, out = replayOnce()
            tries += 1
            hits += int(k)
            sameDigest = sameDigest or d
        if hits == 0 and mini["steps"] != v["steps"]:
            data.update(cfg=v["cfg"], steps=v["steps"], violation=v["violation"],
                        digest=v["digest"], events=[])
            data["minimised"]["converged"] = False
            with open(path, "w") as fh:
                json.dump(data, fh, indent=1, sort_keys=True, default=core._jsonDefault)
            for _ in range(3):
                k, d, out = replayOnce()
                tries += 1
                hits += int(k)
        if hits == 0:
            print(f"HARNESS-NONDETERMINISM replay of {path} in a fresh process did not "
                  f"reproduce key {key} ({tries} attempts)")
            print(out[-3000:])
            return None
        data["flaky"] = {"reproduced": hits, "attempts": tries,
                         "note": "the violating behaviour itself is not deterministic "
                                 "(e.g. values read from uninitialised memory)"}
        with open(path, "w") as fh:
            json.dump(data, fh, indent=1, sort_keys=True, default=core._jsonDefault)
        print(f"NOTE violation key={key} reproduces in {hits} of {tries} fresh-process replays: "
              "the broken behaviour is itself nondeterministic")
    print(f"violation key={key} seed_i={v['seedI']} run_index={v['index']} "
          f"steps={len(mini['steps'])} (from {len(v['steps'])}) :: {mini['violation']['message']}")
    print(f"VIOLATION property={prop} replay={path}")
    return path


def _writeEvidence(prop: str, tier: str, baseSeed: int, machineCls: type, agg: dict,
                   wall: float, nViol: int, knownSeen: Any, selfcheckInfo: dict,
                   replayPaths: list, workers: int) -> None:
    nDistinct = sum(1 for nt in agg["histories"].values() if nt)
    possibleBigrams = getattr(machineCls, "POSSIBLE_BIGRAMS", None)
    coverage = {
        "evaluations": int(agg["steps"]),
        "distinct_nontrivial": int(nDistinct),
        "rule": machineCls.RULE,
        "samples": agg["samples"][:3],
        "runs": agg["runs"],
        "distinct_histories": len(agg["histories"]),
        "runs_skipped_by_wall_cap": agg["skippedRuns"],
        "runs_per_hour": round(agg["runs"] / wall * 3600, 1),
        "seeds_per_hour": round(agg["runs"] / wall * 3600, 1),
        "logical_steps": agg["steps"],
        "simulated_time": "none: WallGo has no clock or timer; time is counted in "
                          "logical steps (API calls on the shared object)",
        "ops": dict(sorted(agg["ops"].items())),
        "step_outcomes": dict(sorted(agg["outcomes"].items())),
        "fault_fired": dict(sorted(agg["faultFired"].items())),
        "probes": dict(sorted(agg["probes"].items())),
        "oracle_checks": dict(sorted(agg["checks"].items())),
        "largest_discrepancy_over_tolerance": {
            k: float(f"{v:.3g}") for k, v in sorted(agg["maxima"].items())},
        "distinct_states": len(agg["states"]),
        "state_abstraction": getattr(machineCls, "ABSTRACTION", ""),
        "op_bigrams_reached": len(agg["bigrams"]),
        "op_bigrams_possible": possibleBigrams,
        "components_real": machineCls.COMPONENTS_REAL,
        "components_stub": machineCls.COMPONENTS_STUB,
        "selfcheck_fresh_interpreter_digests": selfcheckInfo,
        "known_findings_reobserved": dict(knownSeen),
        "replay_files": replayPaths,
        "workers": workers,
        "exhaustive": False,
    }
    evidence = {
        "property_id": prop, "tier": tier, "seed": int(baseSeed), "level": "exploration",
        "coverage": coverage,
        "assumptions": machineCls.ASSUMPTIONS,
        "wall_s": round(wall, 2),
        "violations": int(nViol),
    }
    outDir = os.path.join(core.VERIF_ROOT, "evidence")
    os.makedirs(outDir, exist_ok=True)
    tmp = os.path.join(outDir, f".{prop}.json.tmp")
    with open(tmp, "w") as fh:
        json.dump(evidence, fh, indent=1, sort_keys=True, default=core._jsonDefault)
    os.replace(tmp, os.path.join(outDir, f"{prop}.json"))


def digestOf(prop: str, tier: str, baseSeed: int, indices: list) -> int:
    machineCls = loadMachine(prop)
    known, _ = loadKnownFindings(prop)
    for index in indices:
        seedI = core.deriveSeed(prop, baseSeed, index)
        cfg = machineCls.drawConfig(core.stream(seedI, "cfg"), tier)
        res = core.executeHistory(machineCls, cfg, None, seedI, frozenset(known))
        print(f"DIGEST {index} {res.digest}")
    return 0
