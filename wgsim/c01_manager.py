"""
C01 -- reported wall velocity is a bracketed zero of the total pressure, and a
function of model and settings only.  One real WallGoManager per run lives
through a seeded history of public calls (set-up of benchmark points, LTE
speed, deflagration and detonation solves, direct probes of the shared
hydrodynamics / thermodynamics objects, configuration changes, collision
directory changes, a second model instance) with faults injected into the
user's potential callback and into the collision directory.  Every checked
result is compared bitwise with the result of a FRESH manager brought to the
same logical state, and the bracketing / window / companion / labelling
invariants are evaluated on the solver's own recorded pressure evaluations.
DESIGN.md section 3, C01.
"""

from __future__ import annotations

import logging
import math
import multiprocessing
import os
import pathlib
import random
import warnings
from typing import Any

import numpy as np

from . import fixtures
from . import core
from .core import Machine, Violation, Skip, HarnessError, Ctx, digest

# --------------------------------------------------------------------------
# pools (small and discrete so that references are shared between histories)
# --------------------------------------------------------------------------
BASE_SOLVE_CFG = {"M": 20, "N": 5, "errTol": 1e-3, "maxIterations": 25, "pressRelErrTol": 0.1,
                  "conserve": True, "thicknessBounds": [0.1, 100.0], "collisionMultiplier": 1.0}
VARIANTS = {
    "V0": {},
    "V1": {"M": 16, "errTol": 3e-3},
    "V2": {"maxIterations": 3},
    "V3": {"conserve": False},
    "V4": {"thicknessBounds": [0.1, 4.0]},
    "V5": {"M": 24, "pressRelErrTol": 0.05, "errTol": 1e-2},
    "V6": {"N": 7, "collisionMultiplier": 2.0},
    "V7": {"maxIterations": 4},
    "V8": {"maxIterations": 5, "pressRelErrTol": 0.01},
    "V9": {"thicknessBounds": [0.1, 3.0], "M": 16},
    "V10": {"errTol": 3e-5},
}
SETTINGS = {
    "S0": {"mfp": 5000.0, "thickness": 10.0},
    "S1": {"mfp": 200.0, "thickness": 6.0},
    "S2": {"mfp": 5000.0, "thickness": 14.0},
}
SINGLET_SETTINGS = {"S0": {"mfp": 100.0, "thickness": 20.0}, "S1": {"mfp": 100.0, "thickness": 12.0},
                    "S2": {"mfp": 50.0, "thickness": 25.0}}
BAG_SETTINGS = {"S0": {"mfp": 50.0, "thickness": 5.0}, "S1": {"mfp": 20.0, "thickness": 4.0},
                "S2": {"mfp": 50.0, "thickness": 7.0}}
SETUP_CFG = {"phaseTracerTol": 1e-8}
#: parameter scans re-parametrise ONE model instance in place between set-ups
PARAM_SETS = {
    "yukawa": {"P0": {}, "P1": {"y": 0.54}, "P2": {"msq": 1.02}},
    "singlet": {"P0": {}, "P1": {"lHS": 0.91}, "P2": {"lSS": 1.02}},
    "bag": {"P0": {}, "P1": {"cT": 0.03}, "P2": {"mu": 3.32}},
}
COLLISION = {"N": 7, "gamma": 0.5, "mix": -0.1}

PROGRAMMING_ERRORS = frozenset({"TypeError", "AttributeError", "IndexError", "KeyError",
                                "NameError", "UnboundLocalError", "ZeroDivisionError",
                                "RecursionError", "AssertionError"})
_REF_CACHE: dict = {}
_REF_NEW: dict = {}
_TRACE: dict = {"active": None}


def _installTrace(WallGo: Any) -> None:
    import WallGo.equationOfMotion as eomMod  # pylint: disable=import-outside-toplevel

    EOM = eomMod.EOM
    if getattr(EOM.wallPressure, "_wgsimWrapper", False):
        return
    orig = EOM.wallPressure

    def traced(self: Any, wallVelocity: Any, wallParams: Any, *args: Any, **kwargs: Any) -> Any:
        out = orig(self, wallVelocity, wallParams, *args, **kwargs)
        rec = _TRACE["active"]
        if rec is not None:
            try:
                rec.append({
                    "vw": float(wallVelocity), "P": float(out[0]),
                    "okP": bool(self.successWallPressure),
                    "okT": bool(self.successTemperatureProfile),
                    "widths": np.array(out[1].widths, dtype=float, copy=True),
                    "offsets": np.array(out[1].offsets, dtype=float, copy=True),
                    "Tprofile": np.array(out[3].temperatureProfile, dtype=float, copy=True),
                    "vprofile": np.array(out[3].velocityProfile, dtype=float, copy=True),
                    "Tplus": float(out[4].temperaturePlus),
                    "Tminus": float(out[4].temperatureMinus),
                    "eom": self,
                })
            except Exception as exc:  # pylint: disable=broad-except
                rec.append({"broken": repr(exc)})
        return out

    traced._wgsimWrapper = True  # type: ignore[attr-defined]
    traced._wgsimOrig = orig  # type: ignore[attr-defined]
    EOM.wallPressure = traced


STATE_FIELDS = ("paramSet", "point", "variant", "collKind", "valid", "tscale")


def _computeReference(machine: Any, state: dict, op: str, step: dict) -> tuple:
    """runs in a process forked from the pristine reference server"""
    for name in STATE_FIELDS:
        setattr(machine, name, state[name])
    machine._dirs = dict(state["dirs"])
    ctx = Ctx()
    ctx._scratch = state["scratch"]
    machine.ctx = ctx
    stats = lambda: {"probes": dict(ctx.probes), "checks": dict(ctx.checks),  # noqa: E731
                     "maxima": dict(ctx.maxima)}
    try:
        rec = machine._referenceLocal(op, step)
    except Violation as v:
        return ("violation", v.oracle, v.cause, v.message, stats())
    return ("rec", rec, stats())


class _ReferenceServer:
    """A helper process forked at the very start of a run, before the history
    touches the system under test.  Every reference ("a fresh manager asked only
    this question") is computed in a fork of THIS pristine process, so that state
    the history may have left in module globals or class attributes of WallGo
    cannot reach - and equally poison - the reference."""

    def __init__(self, machine: Any):
        self.conn, childConn = multiprocessing.Pipe()
        self.pid = os.fork()
        if self.pid == 0:
            code = 0
            try:
                self.conn.close()
                while True:
                    msg = childConn.recv()
                    if msg is None:
                        break
                    state, op, step = msg
                    try:
                        result = core.runIsolated(_computeReference,
                                                  (machine, state, op, step), 1500)
                    except BaseException as exc:  # pylint: disable=broad-except
                        result = ("error", core.formatException(exc))
                    childConn.send(result)
            except (EOFError, OSError, KeyboardInterrupt):
                code = 1
            finally:
                os._exit(code)
        childConn.close()

    def request(self, state: dict, op: str, step: dict) -> tuple:
        self.conn.send((state, op, step))
        return self.conn.recv()

    def close(self) -> None:
        try:
            self.conn.send(None)
            self.conn.close()
        except (OSError, BrokenPipeError):
            pass
        try:
            os.waitpid(self.pid, 0)
        except ChildProcessError:
            pass


def _num(x: Any) -> Any:
    if x is None:
        return None
    try:
        return np.asarray(x, dtype=float)
    except (TypeError, ValueError):
        return repr(x)


def resultRecord(res: Any) -> dict:
    """every public field of a WallGoResults, as digestable values"""
    out: dict = {}
    for name in ("wallVelocity", "wallVelocityError", "wallVelocityLTE", "temperaturePlus",
                 "temperatureMinus", "velocityJouguet", "wallWidths", "wallOffsets",
                 "velocityProfile", "temperatureProfile", "fieldProfiles", "deltaF",
                 "truncationError", "linearizationCriterion1", "linearizationCriterion2",
                 "deltaFFiniteDifference"):
        out[name] = _num(getattr(res, name, None))
    for group in ("Deltas", "DeltasFiniteDifference"):
        deltas = getattr(res, group, None)
        for name in ("Delta00", "Delta02", "Delta20", "Delta11"):
            poly = getattr(deltas, name, None) if deltas is not None else None
            out[f"{group}.{name}"] = _num(getattr(poly, "coefficients", None))
    out["success"] = bool(getattr(res, "success", False))
    st = getattr(res, "solutionType", None)
    out["solutionType"] = getattr(st, "name", repr(st))
    out["message"] = str(getattr(res, "message", ""))
    out["hasOutOfEquilibrium"] = bool(getattr(res, "hasOutOfEquilibrium", False))
    return out


def _finiteVelocity(rec: dict) -> bool:
    v = rec.get("wallVelocity")
    return v is not None and not isinstance(v, str) and np.ndim(v) == 0 and bool(np.isfinite(v))


class ManagerMachine(Machine):
    PROP = "C01"
    MAX_STEPS = 8
    MUTATORS = frozenset({"setup", "config", "colldir", "hydro", "thermo", "lte", "detonation",
                          "solve", "new_model", "arm"})
    OBSERVERS = frozenset({"solve", "lte", "detonation", "setup"})
    RULE = (
        "one history = one WallGoManager (real code end to end) with a harness model "
        "(Yukawa-type one-field quartic, or a bag-type quartic that runs away), 3-8 steps "
        "from {setup(point) incl. points rejected by phase validation, lte, solve(settings, "
        "off-equilibrium on/off), detonation, hydro probe on the shared Hydrodynamics, "
        "thermo probe, config variant change (solve-time keys), collision directory "
        "good/missing/mixed-size, second model instance, arm callback fault raise/NaN at a "
        "seeded fraction of the step's potential evaluations}. Every setup/lte/solve/"
        "detonation result is compared bitwise (sha256 of float bytes of every result "
        "field) with a fresh manager given the same model, config snapshot and point and "
        "only that one call; bracketing, window, companion, runaway and labelling checks "
        "run on the recorded wallPressure evaluations of history and reference solves. "
        "distinct = sha256 of (config, steps); non-trivial = a state-changing step "
        "followed by a checked result."
    )
    ABSTRACTION = "(model, point, variant, collision dir, valid?, last outcome class)"
    COMPONENTS_REAL = ["WallGoManager", "Thermodynamics / FreeEnergy.tracePhase", "Hydrodynamics",
                       "HydrodynamicsTemplateModel", "EOM", "Grid3Scales", "BoltzmannSolver",
                       "CollisionArray loading (h5py)", "scipy root finders / ODE solvers"]
    COMPONENTS_STUB = ["user model classes (analytic potentials with a counted evaluate seam)",
                       "collision generator (relaxation-time operator files)",
                       "EOM.wallPressure recorder (calls the real method unchanged)"]
    ASSUMPTIONS = [
        "model pool: Yukawa-type quartic at Tn in {7.0,7.5,8.0,8.2,8.3} and a bag-type quartic "
        "(runaway); 'every model' is sampled by these families only",
        "bitwise equality with a fresh manager is sound because BLAS threads are pinned to 1 "
        "(solveWall is bitwise reproducible across processes and hash seeds; determinism "
        "self-check in every run, mismatch re-confirmed on a second fresh manager)",
        "results between a failed or fault-injected set-up and the next clean set-up are not "
        "judged (a failed set-up leaves thermodynamics(new)/hydrodynamics(old), outside C01)",
    ]
    REQUIRED_REACH = {
        "quick": {"probes": ["class_deflagration_checked", "history_vs_fresh_equal",
                             "post_fault_strict_steps"]},
        "thorough": {"probes": ["class_deflagration_checked", "history_vs_fresh_equal",
                                "post_fault_strict_steps", "class_runaway_checked",
                                "class_error_checked", "offEq_solves",
                                "config_changed_between_solves"],
                     "faultFired": ["callback_raises", "callback_nan", "missing_file"]},
    }
    OPS = ("setup", "lte", "solve", "detonation", "hydro", "thermo", "config", "colldir",
           "new_model", "arm", "solver_reuse", "params", "other_manager")
    POSSIBLE_BIGRAMS = len(OPS) * (len(OPS) + 1)

    # ------------------------------------------------------------------ config
    THEMES = ("history", "labelling", "offeq", "lowT", "bag", "mixed", "singlet")

    @staticmethod
    def drawConfig(rng: random.Random, tier: str) -> dict:
        """swarm: every run has a theme that concentrates it on one region of the
        (model, point, configuration, operation) space, so that a small batch still
        reaches each outcome class and each kind of history several times"""
        # the labelling theme is drawn twice as often as the others: its failures need
        # one (variant, point) coincidence each and are the cheapest runs of the batch
        theme = rng.choice(ManagerMachine.THEMES + ("labelling",))
        kind = {"bag": "bag", "singlet": "singlet"}.get(theme, "yukawa")
        pts = fixtures.POINTS[kind]
        weights = {"setup": 1, "lte": 1, "solve": 3, "detonation": 1, "hydro": 1, "thermo": 1,
                   "config": 1, "colldir": 0, "new_model": 1, "arm": 1, "solver_reuse": 1,
                   "params": 1, "other_manager": 1}
        pool = [v for v in VARIANTS if v != "V0"]
        offEq = False
        good = list(pts["good"])
        if theme == "history":
            weights.update(hydro=3, detonation=2, lte=2, thermo=2, config=1, arm=0, params=2)
            variants = ["V0", rng.choice(["V1", "V5"])]
            good = [t for t in good if t >= 6.5]
        elif theme == "labelling":
            variants = rng.sample(["V2", "V4", "V7", "V8", "V9", "V10"], 3) + ["V0"]
            # a coverage theme: many (variant, point, settings) combinations per run
            weights.update(config=4, solve=4, setup=2, hydro=0, thermo=0, detonation=0, arm=0,
                           lte=0, new_model=0, params=0, other_manager=0)
            good = [t for t in good if t >= 7.0]
        elif theme == "offeq":
            offEq = True
            variants = ["V0", rng.choice(["V6", "V1"])]
            weights.update(colldir=6, config=1, detonation=2, arm=1, hydro=1, thermo=0,
                           new_model=2, lte=0)
            good = [t for t in good if t >= 7.0]
        elif theme == "lowT":
            good = [5.5, 5.8, 6.5]
            variants = ["V0", "V1"]
            weights.update(lte=3, hydro=2, detonation=1, config=0, arm=0)
        elif theme == "bag":
            variants = ["V0", "V1"]
            weights.update(detonation=2, arm=1, colldir=0)
        elif theme == "singlet":
            variants = ["V0", rng.choice(["V1", "V3", "V7"])]
            weights.update(hydro=2, lte=2, detonation=1, config=1, arm=1, colldir=0)
        else:
            variants = ["V0"] + rng.sample(pool, 2)
            offEq = rng.random() < 0.3
            weights.update(colldir=1 if offEq else 0, arm=2)
        good = rng.sample(good, min(2, len(good)))
        settings = rng.sample(sorted(SETTINGS), 2)
        return {"kind": kind, "theme": theme, "good": good, "bad": pts["bad"],
                "variants": variants, "settings": settings, "offEq": offEq,
                "firstVariant": rng.choice(variants),
                "reuseSettingsObject": rng.random() < 0.5,
                "weights": weights, "steps": rng.choice([4, 5, 6, 8])}

    @staticmethod
    def simplerConfigs(cfg: dict):
        return ()

    # ------------------------------------------------------------------ set-up
    def __init__(self, cfg: dict, ctx: Ctx):
        super().__init__(cfg, ctx)
        import WallGo  # pylint: disable=import-outside-toplevel
        self.WallGo = WallGo
        _installTrace(WallGo)
        logging.disable(logging.CRITICAL)
        self.kind = cfg["kind"]
        self.params = fixtures.MODEL_PARAMS[self.kind]
        self.classes = fixtures.modelClasses(WallGo)
        self.paramSet = "P0"
        self.variant = cfg.get("firstVariant", "V0")
        self.tscale: float | None = None
        self.point: float | None = None
        self.valid = False
        self.collKind = "none"
        self._dirs: dict = {}
        self.settingsObj: Any = None
        self.otherModels: list = []
        self.otherManagers: list = []
        self.lastPoint: float | None = None
        ctx.scratch()
        # forked NOW, while this process has not run any WallGo computation
        self.refServer: _ReferenceServer | None = _ReferenceServer(self)
        self.mgr, self.model, self.ctl = self._freshManager(SETUP_CFG, self.variant, None)
        # the examples shipped with WallGo keep ONE WallSolverSettings object and
        # change its fields in place between calls; half of the runs do the same
        if cfg["offEq"]:
            self.collKind = "good"
            self.mgr.setPathToCollisionData(self._collisionDir("good"))
        self.armed: dict | None = None
        self.lastOutcome = "-"
        self.lastQuestion: dict | None = None
        self.prevOp = "-"
        self.kept: list = []
        self.solvesSinceConfig = 0
        self.faultSeen = False

    def _solveCfg(self, variant: str) -> dict:
        return dict(BASE_SOLVE_CFG, **VARIANTS[variant])

    def _applyConfig(self, mgr: Any, setupCfg: dict, variant: str) -> None:
        cfg = self._solveCfg(variant)
        c = mgr.config
        c.configThermodynamics.phaseTracerTol = setupCfg["phaseTracerTol"]
        c.configGrid.spatialGridSize = cfg["M"]
        c.configGrid.momentumGridSize = cfg["N"]
        c.configEOM.errTol = cfg["errTol"]
        c.configEOM.maxIterations = cfg["maxIterations"]
        c.configEOM.pressRelErrTol = cfg["pressRelErrTol"]
        c.configEOM.conserveEnergyMomentum = cfg["conserve"]
        # Touch the bounds only when this variant changes them, and then element by
        # element, as Config.loadConfigFromFile does: a user who never sets them keeps
        # the default list object (whatever that object may be shared with)
        for i, bound in enumerate(cfg["thicknessBounds"]):
            if c.configEOM.wallThicknessBounds[i] != float(bound):
                c.configEOM.wallThicknessBounds[i] = float(bound)
        c.configBoltzmannSolver.collisionMultiplier = cfg["collisionMultiplier"]

    def _freshManager(self, setupCfg: dict, variant: str, collKind: str | None) -> tuple:
        ctl = fixtures.CallbackCtl()
        model = self.classes[self.kind](
            ctl, dict(self.params, **PARAM_SETS[self.kind][getattr(self, "paramSet", "P0")]))
        mgr = self.WallGo.WallGoManager()
        mgr.setVerbosity(logging.ERROR)
        logging.disable(logging.CRITICAL)
        self._applyConfig(mgr, setupCfg, variant)
        mgr.registerModel(model)
        if collKind not in (None, "none"):
            mgr.setPathToCollisionData(self._collisionDir(collKind))
        return mgr, model, ctl

    def _collisionDir(self, kind: str) -> pathlib.Path:
        """ONE directory per run whose content is rewritten in place (a generator
        run that is repeated, interrupted or repaired); the manager is pointed at
        it once.  Content per kind is deterministic, so references are shareable."""
        base = pathlib.Path(self.ctx.scratch()) / "collisions_live"
        if self._dirs.get("content") == kind:
            return base
        if base.exists():
            for f in base.iterdir():
                f.unlink()
        names = self.classes[self.kind].particleNames
        if kind in ("good", "mixed"):
            fixtures.writeRelaxationCollisions(base, names, COLLISION["N"],
                                               COLLISION["gamma"], COLLISION["mix"])
        if kind == "good2":  # a different, equally valid generation
            fixtures.writeRelaxationCollisions(base, names, COLLISION["N"] + 2,
                                               2 * COLLISION["gamma"], COLLISION["mix"])
        elif kind == "missing":
            fixtures.writeRelaxationCollisions(
                base, names, COLLISION["N"], COLLISION["gamma"], COLLISION["mix"],
                only=[(names[0], names[0]), (names[0], names[1])])
        elif kind == "mixed":
            fixtures.writeRelaxationCollisions(
                base, names, COLLISION["N"] + 2, COLLISION["gamma"], COLLISION["mix"],
                only=[(names[1], names[1])])
        elif kind not in ("good", "good2"):
            raise HarnessError(kind)
        self._dirs["content"] = kind
        return base

    def close(self) -> None:
        _TRACE["active"] = None
        logging.disable(logging.WARNING)
        if self.refServer is not None:
            self.refServer.close()
            self.refServer = None

    # ------------------------------------------------------------------ generator
    def nextStep(self, rng: random.Random, index: int) -> dict | None:
        cfg = self.cfg
        if index >= cfg["steps"]:
            return None
        if index == 0:
            return {"op": "setup", "point": rng.choice(cfg["good"])}
        last = index == cfg["steps"] - 1
        w = cfg["weights"]
        ops: list = []
        for name in self.OPS:
            ops += [name] * w[name]
        op = "solve" if last else rng.choice(ops)
        if not self.valid and op in ("lte", "solve", "detonation", "hydro", "thermo"):
            op = "setup"
        if self.valid and cfg["offEq"] and self.prevOp == "colldir" and rng.random() < 0.35:
            # every kind of solver call against the directory as it is now
            return {"op": "detonation", "settings": rng.choice(cfg["settings"]), "offEq": True}
        # perturb-then-ask-again: after a step that could leave something behind,
        # most of the time repeat the last question put to this manager
        if self.valid and self.lastQuestion is not None and self.prevOp in (
                "config", "colldir", "hydro", "thermo", "new_model", "arm", "lte",
                "detonation", "solve") and rng.random() < (0.9 if self.prevOp == "colldir"
                                                           else 0.6):
            self.ctx.probes["question_repeated_after_perturbation"] += 1
            return dict(self.lastQuestion)
        if op == "setup":
            if cfg["bad"] and rng.random() < 0.15 and not last:
                return {"op": "setup", "point": rng.choice(cfg["bad"])}
            step = {"op": "setup", "point": rng.choice(cfg["good"])}
            if self.prevOp == "params" and self.lastPoint is not None and rng.random() < 0.7:
                step["point"] = self.lastPoint  # a parameter scan at fixed temperature
            if rng.random() < 0.3:
                step["tscale"] = rng.choice([0.5, 2.0])
            return step
        if op == "solve":
            offEq = bool(cfg["offEq"] and rng.random() < (0.9 if cfg.get("theme") == "offeq"
                                                          else 0.6))
            return {"op": "solve", "settings": rng.choice(cfg["settings"]), "offEq": offEq}
        if op == "detonation":
            return {"op": "detonation", "settings": rng.choice(cfg["settings"]),
                    "offEq": bool(cfg["offEq"] and rng.random() < 0.5)}
        if op == "lte":
            return {"op": "lte"}
        if op == "hydro":
            call = rng.choice(["findMatching", "findHydroBoundaries", "fastestDeflag",
                               "slowestDeton", "efficiencyFactor", "findvwLTE", "findMatching"])
            return {"op": "hydro", "call": call, "vw": round(rng.uniform(0.05, 0.95), 3)}
        if op == "thermo":
            return {"op": "thermo", "which": rng.choice(["low", "high", "Tc"]),
                    "rel": rng.choice([0.5, 0.9, 1.0, 1.05, 1.5])}
        if op == "config":
            return {"op": "config", "variant": rng.choice(cfg["variants"])}
        if op == "colldir":
            return {"op": "colldir", "kind": rng.choice(["good", "good", "good2", "missing",
                                                         "mixed"]),
                    "repoint": rng.random() < 0.3}
        if op == "new_model":
            return {"op": "new_model"}
        if op == "params":
            return {"op": "params", "set": rng.choice(["P0", "P1", "P2"])}
        if op == "other_manager":
            return {"op": "other_manager", "variant": rng.choice(sorted(VARIANTS))}
        if op == "solver_reuse":
            offEq = bool(cfg["offEq"] and self.collKind in ("good", "good2")
                         and rng.random() < 0.7)
            return {"op": "solver_reuse", "settings": rng.choice(cfg["settings"]),
                    "offEq": offEq}
        if op == "arm":
            return {"op": "arm", "kind": rng.choice(["raise", "raise", "nan"]),
                    "frac": round(rng.uniform(0.001, 0.999), 4)}
        raise HarnessError(op)

    def simplerSteps(self, step: dict):
        if step["op"] == "solve" and step.get("offEq"):
            yield dict(step, offEq=False)
        if step["op"] == "config" and step["variant"] != "V0":
            yield dict(step, variant="V0")

    # ------------------------------------------------------------------ references
    def _refKey(self, op: str, args: Any) -> tuple:
        coll = self.collKind if (op in ("solve", "detonation") and args and args[1]) else "-"
        return (self.kind, self.paramSet, self.tscale, self.point, self.variant, coll, op,
                digest(args) if args is not None else None)

    def _setupCall(self, mgr: Any, point: float) -> None:
        """self.tscale (set from the set-up step) scales the temperature variation
        scale handed to WallGo: a scan may adapt it from point to point"""
        pts = fixtures.POINTS[self.kind]
        W = self.WallGo
        tscale = pts["Tscale"] if pts["Tscale"] is not None else 0.5 * point
        if self.tscale is not None:
            tscale = tscale * self.tscale
        mgr.setupThermodynamicsHydrodynamics(
            W.PhaseInfo(temperature=point, phaseLocation1=W.Fields(pts["phase1"]),
                        phaseLocation2=W.Fields(pts["phase2"])),
            W.VeffDerivativeSettings(temperatureVariationScale=tscale,
                                     fieldValueVariationScale=pts["fscale"]))

    def _settings(self, name: str, offEq: bool, history: bool = False) -> Any:
        table = {"bag": BAG_SETTINGS, "singlet": SINGLET_SETTINGS}.get(self.kind, SETTINGS)
        s = table[name]
        if history and self.cfg.get("reuseSettingsObject"):
            if self.settingsObj is None:
                self.settingsObj = self.WallGo.WallSolverSettings()
            else:
                self.ctx.probes["settings_object_mutated_in_place"] += 1
            self.settingsObj.bIncludeOffEquilibrium = offEq
            self.settingsObj.meanFreePathScale = s["mfp"]
            self.settingsObj.wallThicknessGuess = s["thickness"]
            return self.settingsObj
        return self.WallGo.WallSolverSettings(bIncludeOffEquilibrium=offEq,
                                              meanFreePathScale=s["mfp"],
                                              wallThicknessGuess=s["thickness"])

    def _runOp(self, mgr: Any, ctl: Any, op: str, step: dict, armAt: tuple | None,
               history: bool = False) -> dict:
        """run one checked operation on a manager; returns the observation record"""
        trace: list = []
        ctl.calls = 0
        ctl.fired = False
        if armAt is not None:
            ctl.arm(armAt[0], armAt[1])
        _TRACE["active"] = trace
        outcome, value, exc = "ok", None, None
        try:
            with warnings.catch_warnings():
                warnings.simplefilter("ignore")
                with np.errstate(all="ignore"):
                    if op == "setup":
                        self._setupCall(mgr, step["point"])
                    elif op == "lte":
                        value = mgr.wallSpeedLTE()
                    elif op == "solve":
                        value = mgr.solveWall(self._settings(step["settings"], step["offEq"],
                                                             history))
                    elif op == "detonation":
                        value = mgr.solveWallDetonation(self._settings(
                            step["settings"], bool(step.get("offEq", False)), history))
                    else:
                        raise HarnessError(op)
        except HarnessError:
            raise
        except Exception as e:  # pylint: disable=broad-except
            outcome, exc = type(e).__name__, e
        finally:
            _TRACE["active"] = None
            ctl.disarm()
        rec: dict = {"outcome": outcome, "nCalls": ctl.calls, "fired": ctl.fired,
                     "trace": trace, "error": None if exc is None else str(exc)[:300]}
        if history and outcome == "ok" and op in ("solve", "detonation"):
            rec["value"] = value  # the very object handed to the caller
        if outcome == "ok":
            if op == "setup":
                rec["obs"] = self._setupObservation(mgr)
            elif op == "lte":
                rec["obs"] = {"vwLTE": _num(value)}
            elif op == "solve":
                rec["obs"] = resultRecord(value)
            else:
                rec["obs"] = {"n": len(value), "results": [resultRecord(r) for r in value]}
        else:
            rec["obs"] = {"raised": outcome}
        rec["digest"] = digest(rec["obs"])
        return rec

    def _setupObservation(self, mgr: Any) -> dict:
        h, th = mgr.hydrodynamics, mgr.thermodynamics
        obs = {"Tn": _num(mgr.phasesAtTn.temperature),
               "phase1": _num(mgr.phasesAtTn.phaseLocation1),
               "phase2": _num(mgr.phasesAtTn.phaseLocation2),
               "vJ": _num(h.vJ), "vMin": _num(h.vMin)}
        for name in ("TMinLowT", "TMaxLowT", "TMinHighT", "TMaxHighT"):
            obs[name] = _num(getattr(h, name, None))
        for name, fe in (("low", th.freeEnergyLow), ("high", th.freeEnergyHigh)):
            obs[f"{name}.range"] = [_num(fe.interpolationRangeMin()),
                                    _num(fe.interpolationRangeMax())]
            obs[f"{name}.n"] = int(fe.numPoints())
        return obs

    def _reference(self, op: str, step: dict, args: Any) -> dict:
        """fresh manager + same model/config/point + only this call"""
        key = self._refKey(op, args) if op != "setup" else \
            (self.kind, self.paramSet, step.get("tscale"), step["point"], "setup")
        if key in _REF_CACHE:
            self.ctx.probes["reference_cache_hit"] += 1
            return _REF_CACHE[key]
        self.ctx.probes["reference_computed"] += 1
        rec = self._referenceUncached(op, step)
        _REF_CACHE[key] = rec
        _REF_NEW[key] = rec
        return rec

    # runs are executed in forked children; references computed there travel
    # back to the worker process so that later runs inherit them
    @staticmethod
    def exportShared() -> dict:
        return dict(_REF_NEW)

    @staticmethod
    def importShared(shared: dict) -> None:
        _REF_CACHE.update(shared)

    def _referenceUncached(self, op: str, step: dict) -> dict:
        """ask the pristine reference server"""
        if self.refServer is None:
            return self._referenceLocal(op, step)
        state = {name: getattr(self, name) for name in STATE_FIELDS}
        state["dirs"] = dict(self._dirs)
        state["scratch"] = self.ctx.scratch()
        reply = self.refServer.request(state, op, step)
        if reply[0] == "error":
            raise HarnessError("reference server: " + reply[1])
        stats = reply[-1]
        for name in ("probes", "checks"):
            getattr(self.ctx, name).update(stats[name])
        for name, val in stats["maxima"].items():
            self.ctx.margin(name, val)
        if reply[0] == "violation":
            raise Violation(reply[1], reply[2], reply[3])
        return reply[1]

    def _referenceLocal(self, op: str, step: dict) -> dict:
        mgr, _, ctl = self._freshManager(SETUP_CFG, self.variant, self.collKind)
        if op != "setup":
            with warnings.catch_warnings():
                warnings.simplefilter("ignore")
                with np.errstate(all="ignore"):
                    self._setupCall(mgr, self.point)
        rec = self._runOp(mgr, ctl, op, step, None)
        if rec["outcome"] == "ok" and op in ("solve", "detonation"):
            rec["oracle"] = self._oracleFacts(mgr, rec)
            self._checkResult(op, step, rec, rec["oracle"], "reference")
        rec["trace"] = self._slimTrace(rec["trace"])
        return rec

    def _slimTrace(self, trace: list) -> list:
        return [{k: v for k, v in t.items() if k != "eom"} for t in trace]

    # ------------------------------------------------------------------ oracles
    def _oracleFacts(self, mgr: Any, rec: dict) -> dict:
        """window and companions from the manager's own hydrodynamics, and the
        profile residuals (3b) for the last traced evaluation"""
        h = mgr.hydrodynamics
        facts: dict = {"vJ": float(h.vJ), "vMin": float(h.vMin),
                       "Tn": float(mgr.phasesAtTn.temperature)}
        with warnings.catch_warnings():
            warnings.simplefilter("ignore")
            with np.errstate(all="ignore"):
                facts["fastestDeflag"] = float(h.fastestDeflag())
                results = [rec["obs"]] if "results" not in rec["obs"] else rec["obs"]["results"]
                facts["matching"] = []
                for r in results:
                    if r["success"] and _finiteVelocity(r):
                        vw = float(r["wallVelocity"])
                        try:
                            _, _, Tp, Tm = h.findMatching(vw)
                            facts["matching"].append([vw, float(Tp), float(Tm)])
                        except Exception:  # pylint: disable=broad-except
                            facts["matching"].append([vw, None, None])
                facts["residual"] = self._profileResidual(mgr, rec)
        return facts

    def _profileResidual(self, mgr: Any, rec: dict) -> dict | None:
        """3b: returned profiles reproduce the hydrodynamic boundary constants"""
        obs = rec["obs"]
        if self.kind not in ("yukawa", "singlet") or "results" in obs or not obs["success"] \
                or not _finiteVelocity(obs) or obs["hasOutOfEquilibrium"]:
            return None
        if not self._solveCfg(self.variant)["conserve"]:
            return None
        vw = float(obs["wallVelocity"])
        atVw = [t for t in rec["trace"] if t.get("vw") == vw and "eom" in t]
        last = atVw[-1] if atVw else None
        if last is None or not last["okT"]:
            return None
        h = mgr.hydrodynamics
        c1, c2, Tp, Tm, _ = h.findHydroBoundaries(vw)
        eom = last["eom"]
        W = self.WallGo
        T = np.asarray(obs["temperatureProfile"])[1:-1]
        v = np.asarray(obs["velocityProfile"])[1:-1]
        fieldsArr = np.asarray(obs["fieldProfiles"])
        params = W.WallParams(np.asarray(obs["wallWidths"]), np.asarray(obs["wallOffsets"]))
        vevLow = W.Fields(fieldsArr[0])
        vevHigh = W.Fields(fieldsArr[-1])
        fields, dphi = eom.wallProfile(eom.grid.xiValues, vevLow, vevHigh, params)
        pot = mgr.model.getEffectivePotential()
        fa, da = np.asarray(fields), np.asarray(dphi)
        if self.kind == "yukawa":
            w = -T * pot.dVdT(fa[:, 0], T)
            veff = pot.exact(fa[:, 0], T)
        else:
            w = -T * pot.dVdT2(fa[:, 0], fa[:, 1], T)
            veff = pot.exact2(fa[:, 0], fa[:, 1], T)
        g2 = 1 / (1 - v**2)
        T30 = w * g2 * v
        T33 = 0.5 * np.sum(da**2, axis=1) - veff + w * g2 * v**2
        return {"energy": float(np.max(np.abs(T30 / c1 - 1))),
                "momentum": float(np.max(np.abs(T33 - c2)) / abs(c2))}

    def _checkResult(self, op: str, step: dict, rec: dict, facts: dict | None, who: str) -> None:
        """invariants 2-5 on one solve/detonation record and its own trace"""
        obs = rec["obs"]
        trace = [t for t in rec["trace"] if "broken" not in t]
        if len(trace) != len(rec["trace"]):
            raise HarnessError(f"trace recorder failed: {rec['trace']}")
        cfg = self._solveCfg(self.variant)
        results = [obs] if "results" not in obs else obs["results"]
        for r in results:
            self.ctx.checks["result_invariants"] += 1
            st = r["solutionType"]
            # 5 labelling
            if not r["success"] and st != "ERROR":
                raise Violation("labelling", f"unsuccessful-labelled-{st}",
                                f"{who}: success is False but solutionType is {st}")
            if not r["success"]:
                self.ctx.probes["class_error_checked"] += 1
                self.ctx.probes[f"error:{self._errorClass(r['message'])}"] += 1
                continue
            # 4 runaway
            if st == "RUNAWAY":
                self.ctx.probes["class_runaway_checked"] += 1
                if r["wallVelocity"] is not None:
                    raise Violation("runaway", "velocity-returned",
                                    f"{who}: RUNAWAY reported together with wallVelocity="
                                    f"{r['wallVelocity']}")
                if not trace:
                    raise Violation("runaway", "no-pressure-evaluated",
                                    f"{who}: RUNAWAY reported without any pressure evaluation")
                top = max(trace, key=lambda t: t["vw"])
                if not top["P"] < 0:
                    raise Violation("runaway", "pressure-at-top-not-negative",
                                    f"{who}: RUNAWAY reported but the pressure at the top of the "
                                    f"searched window vw={top['vw']} is {top['P']}")
                if facts is not None and op == "solve":
                    want = min(facts["vJ"], facts["fastestDeflag"])
                    if abs(top["vw"] - want) > 1e-9:
                        raise Violation("runaway", "top-of-window-not-probed",
                                        f"{who}: RUNAWAY decided at vw={top['vw']}, the top of "
                                        f"the window is {want}")
                continue
            if not _finiteVelocity(r):
                if st in ("DEFLAGRATION", "DEFLAGRATION_OR_RUNAWAY") and op == "detonation":
                    self.ctx.probes["class_detonation_none_found"] += 1
                    continue
                raise Violation("labelling", f"success-without-velocity-{st}",
                                f"{who}: success with solutionType {st} but wallVelocity="
                                f"{r['wallVelocity']}")
            vw = float(r["wallVelocity"])
            errTol = cfg["errTol"]
            tol = errTol * (1 + 1e-9) + 1e-12
            # 2 bracketing on the solver's own pressure function
            below = [t for t in trace if vw - tol <= t["vw"] <= vw and t["P"] <= 0]
            above = [t for t in trace if vw <= t["vw"] <= vw + tol and t["P"] >= 0]
            if not (below and above):
                near = sorted(((t["vw"], t["P"]) for t in trace), key=lambda p: abs(p[0] - vw))[:4]
                raise Violation(
                    "bracketing", f"{st}:{'no-negative-below' if not below else 'no-positive-above'}",
                    f"{who}: wallVelocity={vw!r} reported with success, but the recorded "
                    f"pressure evaluations do not change sign (negative below, positive above) "
                    f"within errTol={errTol} of it; nearest evaluations (vw, P): {near}")
            # 3 window and type
            if st == "DEFLAGRATION":
                self.ctx.probes["class_deflagration_checked"] += 1
                if facts is not None:
                    top = min(facts["vJ"], facts["fastestDeflag"])
                    if not (facts["vMin"] - 1e-12 <= vw <= top + 1e-12):
                        raise Violation("window", "deflagration-outside-window",
                                        f"{who}: deflagration velocity {vw} outside "
                                        f"[{facts['vMin']}, {top}]")
            elif st == "DETONATION":
                self.ctx.probes["class_detonation_checked"] += 1
                if facts is not None and not (facts["vJ"] < vw < 1):
                    raise Violation("window", "detonation-outside-window",
                                    f"{who}: detonation velocity {vw} not in (vJ={facts['vJ']}, 1)")
            else:
                raise Violation("labelling", f"velocity-with-type-{st}",
                                f"{who}: finite wallVelocity with solutionType {st}")
            # 3 companions: results are those of the evaluation made AT vw (the
            # most recent one; it need not be the last call of the solve)
            atVw = [t for t in trace if t["vw"] == vw]
            if not atVw:
                raise Violation("companions", "reported-velocity-never-evaluated",
                                f"{who}: reported velocity {vw!r} but no pressure evaluation "
                                f"was made at it (evaluated: {[t['vw'] for t in trace][-5:]})")
            last = atVw[-1]
            # 5 labelling: success means the solution at vw converged
            if not (last["okP"] and last["okT"]):
                raise Violation(
                    "labelling", "success-but-evaluation-at-reported-velocity-not-converged",
                    f"{who}: success reported for vw={vw!r}, but the pressure evaluation at that "
                    f"velocity ended with successWallPressure={last['okP']}, "
                    f"successTemperatureProfile={last['okT']}")
            Tn = facts.get("Tn") if facts is not None else None
            if Tn:
                lo, hi = cfg["thicknessBounds"]
                w = np.asarray(r["wallWidths"], dtype=float) * Tn
                if np.any(np.abs(w - lo) <= 1e-12 * lo) or np.any(np.abs(w - hi) <= 1e-12 * hi):
                    raise Violation(
                        "labelling", "success-with-wall-width-on-its-bound",
                        f"{who}: success reported although a wall width ({w.tolist()} / Tn) "
                        f"sits on the configured bound {cfg['thicknessBounds']}: not a "
                        "converged solution")
            for name, key in (("wallWidths", "widths"), ("wallOffsets", "offsets"),
                              ("temperatureProfile", "Tprofile"),
                              ("velocityProfile", "vprofile")):
                if not np.array_equal(np.asarray(r[name]), last[key]):
                    raise Violation("companions", f"{name}-not-of-converged-solution",
                                    f"{who}: returned {name} is not the one of the pressure "
                                    f"evaluation at the reported velocity")
            if float(r["temperaturePlus"]) != last["Tplus"] or \
                    float(r["temperatureMinus"]) != last["Tminus"]:
                raise Violation("companions", "temperatures-not-of-converged-solution",
                                f"{who}: returned T+/T- are not those of the evaluation at vw")
            if facts is not None:
                if float(r["velocityJouguet"]) != facts["vJ"]:
                    raise Violation("companions", "velocityJouguet",
                                    f"{who}: returned vJ {r['velocityJouguet']} != "
                                    f"hydrodynamics.vJ {facts['vJ']}")
                for mvw, Tp, Tm in facts["matching"]:
                    if mvw == vw and Tp is not None:
                        dev = max(abs(float(r["temperaturePlus"]) / Tp - 1),
                                  abs(float(r["temperatureMinus"]) / Tm - 1))
                        self.ctx.margin("companion_temperatures", dev / 1e-8)
                        if dev > 1e-8:
                            raise Violation(
                                "companions", "temperatures-vs-findMatching",
                                f"{who}: returned T+/T- ({r['temperaturePlus']}, "
                                f"{r['temperatureMinus']}) differ from findMatching({vw}) = "
                                f"({Tp}, {Tm})")
                res = facts.get("residual")
                if res is not None and op == "solve":
                    thr = max(5 * errTol, 5e-3)
                    self.ctx.margin("profile_residual_momentum", res["momentum"] / thr)
                    self.ctx.margin("profile_residual_energy", res["energy"] / thr)
                    self.ctx.checks["profile_residual"] += 1
                    if res["momentum"] > thr or res["energy"] > thr:
                        raise Violation(
                            "companions", "profiles-do-not-conserve-boundary-constants",
                            f"{who}: returned profiles reproduce the hydrodynamic constants "
                            f"only to energy {res['energy']:.2e}, momentum "
                            f"{res['momentum']:.2e} (threshold {thr:.1e})")

    @staticmethod
    def _errorClass(message: str) -> str:
        for tag, needle in (("not-converged", "has not converged"), ("bounds", "saturates"),
                            ("Tminus-range", "Tminus="), ("Tplus-range", "Tplus="),
                            ("temperature-profile", "temperature profile"),
                            ("pressure-at-0-positive", "vw=0 is positive")):
            if needle in message:
                return tag
        return "other"

    # ------------------------------------------------------------------ interpreter
    def execute(self, step: dict) -> Any:
        op = step["op"]
        handler = getattr(self, "_op_" + op, None)
        if handler is None:
            raise HarnessError(f"unknown op {op}")
        try:
            obs = handler(step)
            self._checkKeptResults(op)
            return obs
        finally:
            self.prevOp = op
            if op == "solve":
                self.lastQuestion = {"op": "solve", "settings": step["settings"],
                                     "offEq": bool(step["offEq"])}

    def _keep(self, op: str, rec: dict) -> None:
        """remember the result OBJECT handed to the caller together with the digest
        it had when it was returned"""
        if "value" not in rec:
            return
        self.kept.append((op, rec.pop("value"), rec["digest"]))
        self.kept = self.kept[-3:]

    def _checkKeptResults(self, laterOp: str) -> None:
        """a result that was returned earlier is the caller's: nothing a later
        call does on the manager may change it"""
        for op, value, was in self.kept:
            obs = resultRecord(value) if op == "solve" else \
                {"n": len(value), "results": [resultRecord(r) for r in value]}
            self.ctx.checks["earlier_result_unchanged"] += 1
            if digest(obs) != was:
                raise Violation(
                    "result-aliasing", f"{op}-result-changed-by-later-{laterOp}",
                    f"a {op} result returned earlier on this manager changed after a later "
                    f"{laterOp}: it shares state with the solver instead of owning its data")

    def _op_arm(self, step: dict) -> Any:
        self.armed = {"kind": step["kind"], "frac": float(step["frac"])}
        return ["armed", step["kind"]]

    def _op_config(self, step: dict) -> Any:
        if step["variant"] not in VARIANTS:
            raise Skip()
        if step["variant"] != self.variant and self.solvesSinceConfig:
            self.ctx.probes["config_changed_between_solves"] += 1
        self.variant = step["variant"]
        self._applyConfig(self.mgr, SETUP_CFG, self.variant)
        self.solvesSinceConfig = 0
        return ["config", self.variant]

    def _op_colldir(self, step: dict) -> Any:
        if self.kind != "yukawa":
            raise Skip()
        if step["kind"] not in ("good", "good2", "missing", "mixed"):
            raise Skip()
        path = self._collisionDir(step["kind"])  # rewrites the directory in place
        if self.collKind == "none" or step.get("repoint"):
            self.mgr.setPathToCollisionData(path)
        else:
            self.ctx.probes["collision_dir_changed_in_place"] += 1
        self.collKind = step["kind"]
        return ["colldir", self.collKind]

    def _op_params(self, step: dict) -> Any:
        """a parameter scan: the SAME model instance is re-parametrised in place;
        WallGo documents that setupThermodynamicsHydrodynamics must be run again"""
        if step["set"] not in PARAM_SETS[self.kind]:
            raise Skip()
        if step["set"] != self.paramSet:
            self.ctx.probes["model_reparametrised_in_place"] += 1
        self.paramSet = step["set"]
        self.model.modelParameters.update(
            dict(self.params, **PARAM_SETS[self.kind][self.paramSet]))
        self.valid = False
        self.point = None
        return ["params", self.paramSet]

    def _op_other_manager(self, step: dict) -> Any:
        """A second WallGoManager lives in the same process and its configuration is
        edited IN PLACE, element by element, the way Config.loadConfigFromFile does.
        Nothing of that may reach this manager."""
        if step["variant"] not in VARIANTS:
            raise Skip()
        other = self.WallGo.WallGoManager()
        other.setVerbosity(logging.ERROR)
        logging.disable(logging.CRITICAL)
        cfg = self._solveCfg(step["variant"])
        c = other.config
        c.configEOM.wallThicknessBounds[0] = 0.05 * cfg["thicknessBounds"][0]
        c.configEOM.wallThicknessBounds[1] = 0.5 * cfg["thicknessBounds"][1]
        c.configEOM.wallOffsetBounds[0] = -3.0
        c.configEOM.wallOffsetBounds[1] = 3.0
        c.configEOM.errTol = 7 * cfg["errTol"]
        c.configEOM.maxIterations = 2
        c.configGrid.spatialGridSize = 9
        c.configHydrodynamics.relativeTol = 1e-3
        self.otherManagers = (self.otherManagers + [other])[-2:]
        self.ctx.probes["second_manager_configured_in_place"] += 1
        return ["other_manager"]

    def _op_new_model(self, step: dict) -> Any:
        # a second instance of the same model class is created and discarded
        otherSet = {"P0": "P1", "P1": "P2", "P2": "P0"}[self.paramSet]
        other = self.classes[self.kind](
            fixtures.CallbackCtl(), dict(self.params, **PARAM_SETS[self.kind][otherSet]))
        self.otherModels = (self.otherModels + [other])[-2:]  # stays alive
        return ["new_model", len(other.outOfEquilibriumParticles),
                len(self.model.outOfEquilibriumParticles)]

    def _op_hydro(self, step: dict) -> Any:
        if not self.valid:
            raise Skip()
        h = self.mgr.hydrodynamics
        vw = float(step["vw"])
        out: Any
        with warnings.catch_warnings():
            warnings.simplefilter("ignore")
            with np.errstate(all="ignore"):
                try:
                    call = step["call"]
                    if call == "findMatching":
                        out = h.findMatching(vw)
                    elif call == "findHydroBoundaries":
                        out = h.findHydroBoundaries(vw)
                    elif call == "efficiencyFactor":
                        out = h.efficiencyFactor(vw)
                    elif call in ("fastestDeflag", "slowestDeton", "findvwLTE"):
                        out = getattr(h, call)()
                    else:
                        raise HarnessError(call)
                except HarnessError:
                    raise
                except Exception as exc:  # pylint: disable=broad-except
                    out = ["raised", type(exc).__name__]
        self.ctx.probes["hydro_probe"] += 1
        return ["hydro", step["call"], [_num(x) if not isinstance(x, str) else x
                                        for x in np.atleast_1d(np.array(out, dtype=object))]]

    def _op_thermo(self, step: dict) -> Any:
        if not self.valid:
            raise Skip()
        th = self.mgr.thermodynamics
        T = float(step["rel"]) * float(self.point)
        with warnings.catch_warnings():
            warnings.simplefilter("ignore")
            with np.errstate(all="ignore"):
                try:
                    if step["which"] == "Tc":
                        # the cross-check WallGo's documentation recommends
                        out = [th.findCriticalTemperature(dT=0.01 * float(self.point))]
                    elif step["which"] == "low":
                        out = [th.pLowT(T), th.dpLowT(T), th.ddpLowT(T)]
                    else:
                        out = [th.pHighT(T), th.dpHighT(T), th.ddpHighT(T)]
                except Exception as exc:  # pylint: disable=broad-except
                    out = ["raised", type(exc).__name__]
        self.ctx.probes["thermo_probe"] += 1
        return ["thermo", [_num(x) if not isinstance(x, str) else x for x in out]]

    def _takeArm(self, op: str, step: dict) -> tuple | None:
        """position of the armed fault inside this step: a fraction of the
        number of potential evaluations the fault-free reference needed"""
        if self.armed is None:
            return None
        armed, self.armed = self.armed, None
        ref = self._reference(op, step, self._args(op, step)) if (self.valid or op == "setup") \
            else None
        n = ref["nCalls"] if ref is not None and ref["nCalls"] > 0 else 1000
        return max(1, int(armed["frac"] * n)), armed["kind"]

    def _args(self, op: str, step: dict) -> Any:
        if op == "solve":
            return [step["settings"], bool(step["offEq"])]
        if op == "detonation":
            return [step["settings"], bool(step.get("offEq", False))]
        return None

    def _op_setup(self, step: dict) -> Any:
        point = float(step["point"])
        pts = fixtures.POINTS[self.kind]
        if point not in pts["good"] and point not in pts["bad"]:
            raise Skip()
        previousTscale = self.tscale
        self.tscale = step.get("tscale")
        if self.tscale != previousTscale:
            self.ctx.probes["derivative_scales_changed_between_setups"] += 1
        armAt = self._takeArm("setup", step)
        rec = self._runOp(self.mgr, self.ctl, "setup", step, armAt, history=True)
        faulted = armAt is not None and rec["fired"]
        if faulted:
            self.ctx.faultFired["callback_" + ("raises" if armAt[1] == "raise" else "nan")] += 1
            # relaxed: the step may fail or succeed; the manager is not judged
            # until the next clean set-up (DESIGN 3/C01)
            self.valid = False
            self.point = None
            self.faultSeen = True
            self.lastOutcome = "setup-faulted:" + rec["outcome"]
            return ["setup", "faulted", rec["outcome"]]
        ref = self._reference("setup", step, None)
        self.ctx.checks["setup_vs_fresh"] += 1
        if rec["outcome"] != ref["outcome"] or rec["digest"] != ref["digest"]:
            self._confirmAndRaise("setup", step, rec, ref)
        if rec["outcome"] == "ok":
            self.valid = True
            self.point = point
            self.lastPoint = point
            if self.faultSeen:
                self.ctx.probes["post_fault_strict_steps"] += 1
        else:
            self.valid = False
            self.point = None
            self.ctx.probes["setup_rejected"] += 1
        self.lastOutcome = "setup:" + rec["outcome"]
        return ["setup", rec["outcome"], rec["obs"]]

    def _op_solver_reuse(self, step: dict) -> Any:
        """The public setupWallSolver hands out a WallSolver; asking its EOM the same
        question twice must give the identical answer, and that answer is the one
        solveWall gives (the object is documented as reusable while the manager
        is not modified)."""
        if not self.valid or step["settings"] not in SETTINGS:
            raise Skip()
        if step["offEq"] and (self.kind != "yukawa" or self.collKind not in ("good", "good2")):
            raise Skip()
        solveStep = {"op": "solve", "settings": step["settings"], "offEq": bool(step["offEq"])}
        ref = self._reference("solve", solveStep, self._args("solve", solveStep))
        if ref["outcome"] != "ok":
            raise Skip()
        records = []
        with warnings.catch_warnings():
            warnings.simplefilter("ignore")
            with np.errstate(all="ignore"):
                solver = self.mgr.setupWallSolver(self._settings(step["settings"],
                                                                 bool(step["offEq"]), True))
                for _ in range(2):
                    trace: list = []
                    _TRACE["active"] = trace
                    try:
                        res = solver.eom.findWallVelocityDeflagrationHybrid(
                            solver.initialWallThickness)
                    finally:
                        _TRACE["active"] = None
                    records.append({"obs": resultRecord(res), "trace": trace, "value": res})
        self.ctx.checks["solver_reuse"] += 1
        digests = [digest(r["obs"]) for r in records]
        for i, dg in enumerate(digests):
            if dg != ref["digest"]:
                a, b = records[i]["obs"], ref["obs"]
                fields = [n for n in sorted(set(a) | set(b))
                          if digest(a.get(n)) != digest(b.get(n))]
                raise Violation(
                    "history-independence", f"solver-reuse:call{i + 1}:{','.join(fields[:2])}",
                    f"call {i + 1} on one WallSolver obtained from setupWallSolver differs from "
                    f"solveWall on a fresh manager in {fields[:6]}")
        rec = dict(records[1], outcome="ok")
        self._checkResult("solve", solveStep, rec, ref.get("oracle"), "reused solver")
        self.kept.append(("solve", records[0]["value"], digests[0]))
        self.kept = self.kept[-3:]
        self.ctx.probes["solver_reused_twice"] += 1
        return ["solver_reuse", records[1]["obs"]]

    def _op_lte(self, step: dict) -> Any:
        return self._checked("lte", step)

    def _op_solve(self, step: dict) -> Any:
        if step["settings"] not in SETTINGS:
            raise Skip()
        if step["offEq"] and self.kind != "yukawa":
            raise Skip()
        return self._checked("solve", step)

    def _op_detonation(self, step: dict) -> Any:
        if step["settings"] not in SETTINGS:
            raise Skip()
        if step.get("offEq") and self.kind != "yukawa":
            raise Skip()
        return self._checked("detonation", step)

    def _checked(self, op: str, step: dict) -> Any:
        if not self.valid:
            raise Skip()
        args = self._args(op, step)
        ref = self._reference(op, step, args)
        armAt = self._takeArm(op, step)
        rec = self._runOp(self.mgr, self.ctl, op, step, armAt, history=True)
        if op == "solve":
            self.solvesSinceConfig += 1
            if step["offEq"]:
                self.ctx.probes["offEq_solves"] += 1
        faulted = armAt is not None and rec["fired"]
        if faulted:
            self.faultSeen = True
            self.ctx.faultFired["callback_" + ("raises" if armAt[1] == "raise" else "nan")] += 1
            if rec["outcome"] == "ok" and op in ("solve", "detonation"):
                # relaxed: it may fail; what it returns as success must still
                # satisfy the invariants on its own pressure evaluations
                self._checkResult(op, step, rec, None, "fault-injected step")
            self.lastOutcome = f"{op}-faulted:{rec['outcome']}"
            return [op, "faulted", rec["outcome"]]
        # documented failure channel of the collision directory
        if op in ("solve", "detonation") and step.get("offEq") and \
                self.collKind in ("missing", "mixed", "none"):
            name = {"missing": "missing_file", "mixed": "mixed_size",
                    "none": "missing_file"}[self.collKind]
            self.ctx.faultFired[name] += 1
            if rec["outcome"] != "CollisionLoadError":
                raise Violation(
                    "collision-failure-channel", f"{self.collKind}:{rec['outcome']}",
                    f"off-equilibrium solve with a {self.collKind} collision directory ended "
                    f"with {rec['outcome']} instead of CollisionLoadError: {rec['error']}")
            self.faultSeen = True
        self.ctx.checks[f"{op}_vs_fresh"] += 1
        for who, r in (("history", rec), ("reference", ref)):
            if r["outcome"] in PROGRAMMING_ERRORS:
                # neither a result nor one of the documented failure channels
                raise Violation(
                    "unexpected-exception", f"{op}:{r['outcome']}",
                    f"{who}: {op} on a validly set-up manager raised {r['outcome']}: "
                    f"{r['error']}")
        self.ctx.probes[f"outcome:{op}:{rec['outcome']}"] += 1
        if rec["outcome"] != ref["outcome"] or rec["digest"] != ref["digest"]:
            self._confirmAndRaise(op, step, rec, ref)
        self.ctx.probes["history_vs_fresh_equal"] += 1
        if self.faultSeen:
            self.ctx.probes["post_fault_strict_steps"] += 1
        if rec["outcome"] == "ok" and op in ("solve", "detonation"):
            self._checkResult(op, step, rec, ref.get("oracle"), "history")
            self._keep(op, rec)
        self.lastOutcome = f"{op}:{rec['outcome']}:" + (
            rec["obs"].get("solutionType", "-") if isinstance(rec["obs"], dict) else "-")
        return [op, rec["outcome"], rec["obs"]]

    def _confirmAndRaise(self, op: str, step: dict, rec: dict, ref: dict) -> None:
        """a mismatch is re-confirmed on a second fresh manager before it is
        reported; if the two references disagree the harness is at fault"""
        ref2 = self._referenceUncached(op, step)
        if ref2["digest"] != ref["digest"] or ref2["outcome"] != ref["outcome"]:
            raise HarnessError(
                f"two fresh-manager references disagree for {op} {step}: "
                f"{ref['digest']} vs {ref2['digest']} -- nondeterminism in the reference")
        fields = []
        if isinstance(rec["obs"], dict) and isinstance(ref["obs"], dict):
            a, b = rec["obs"], ref["obs"]
            if "results" in a and "results" in b and len(a["results"]) == len(b["results"]) \
                    and a["results"]:
                a, b = a["results"][0], b["results"][0]
            for name in sorted(set(a) | set(b)):
                if digest(a.get(name)) != digest(b.get(name)):
                    fields.append(name)
        shown = {}
        for name in fields[:3]:
            va, vb = rec["obs"].get(name) if name in rec["obs"] else None, \
                ref["obs"].get(name) if name in ref["obs"] else None
            shown[name] = [repr(va)[:80], repr(vb)[:80]]
        raise Violation(
            "history-independence", f"{op}:{'outcome' if rec['outcome'] != ref['outcome'] else 'fields'}"
            f":{','.join(fields[:2]) if fields else rec['outcome']}",
            f"{op} on the manager with this history gives a result that differs from a fresh "
            f"manager given the same model, settings and point: outcome {rec['outcome']} vs "
            f"{ref['outcome']}; differing fields {fields[:6]} {shown}",
            {"step": step})

    def abstraction(self) -> Any:
        return [self.kind, self.point, self.variant, self.collKind, self.valid, self.lastOutcome]
